"""Failpoints: the probe gates raise instead of yielding."""

import errno
import sqlite3

SQL_FAIL = ('pre:SELECT', 'pre:INSERT', 'pre:UPDATE', 'pre:DELETE')
FILE_FAIL = ('pre:fcreate', 'pre:fwrite', 'pre:fclose', 'pre:mkdir', 'pre:fopen')


class Injected(Exception):
    pass


class FailAt:
    """Raise at the n-th eligible gate (1-based).  persistent=True keeps
    failing the same kind of gate afterwards (needed where the code retries,
    e.g. the ten attempts to open a value file)."""

    def __init__(self, n=None, persistent=False, kinds=SQL_FAIL + FILE_FAIL):
        self.n = n
        self.count = 0
        self.kinds = kinds
        self.fired = None
        self.persistent = persistent
        self.labels = []

    def gate(self, label, info=None):
        if label not in self.kinds:
            return
        self.count += 1
        if self.n is None:
            self.labels.append(label)
            return
        if self.count == self.n or (self.persistent and self.fired == label):
            self.fired = label
            if label in SQL_FAIL:
                raise sqlite3.OperationalError('disk I/O error (injected at %s)' % label)
            code = errno.ENOSPC if label in ('pre:fcreate', 'pre:fwrite', 'pre:fclose', 'pre:mkdir') else errno.EIO
            raise OSError(code, 'injected at %s' % label)
