"""Linearizability checker (Wing-Gong search with state memoisation, after
Lowe) over pluggable sequential models, plus the C05 pre-pass that removes the
one tolerated anomaly."""

import time


class Timeout(Exception):
    pass


INF = float('inf')


def check(ops, init, step, timeout=5.0, max_nodes=400000):
    """ops: dicts with call, ret (None = open), op, args, kw, kind, result.
    step(state, op_record) -> iterable of (new_state, kind, result) the model
    allows for that operation in that state (deterministic models yield one).
    Returns (True, order) / (False, info) / raises Timeout."""
    n = len(ops)
    calls = [o['call'] for o in ops]
    rets = [o['ret'] if o['ret'] is not None else INF for o in ops]
    open_ = [o['ret'] is None for o in ops]
    full = (1 << n) - 1
    deadline = time.monotonic() + timeout
    seen = set()
    nodes = 0
    best = [0, None]

    order = []
    stack = [(0, init, None)]
    # iterative DFS: each frame = (mask, state, iterator over candidates)
    frames = []

    def candidates(mask):
        lo = INF
        for i in range(n):
            if not mask >> i & 1 and rets[i] < lo:
                lo = rets[i]
        return [i for i in range(n) if not mask >> i & 1 and calls[i] < lo]

    def done(mask):
        return all(mask >> i & 1 or open_[i] for i in range(n))

    def expand(mask, state):
        out = []
        for i in candidates(mask):
            o = ops[i]
            for new_state, kind, result in step(state, o):
                if open_[i] or (kind == o['kind'] and results_equal(result, o['result'])):
                    out.append((i, new_state))
        return out

    if done(0):
        return True, []
    frames.append((0, init, iter(expand(0, init))))
    while frames:
        mask, state, it = frames[-1]
        nodes += 1
        if nodes % 256 == 0 and (time.monotonic() > deadline or nodes > max_nodes):
            raise Timeout('%d nodes' % nodes)
        try:
            i, new_state = next(it)
        except StopIteration:
            frames.pop()
            if order:
                order.pop()
            continue
        nmask = mask | 1 << i
        # repr, not the state itself: as tuple elements False, 0 and 0.0 (and True, 1, 1.0) are equal and hash alike,
        # which would merge states that differ only in the type of a stored value
        key = (nmask, repr(new_state))
        if key in seen:
            continue
        seen.add(key)
        order.append(i)
        cnt = bin(nmask).count('1')
        if cnt > best[0]:
            best[0], best[1] = cnt, list(order)
        if done(nmask):
            return True, list(order)
        frames.append((nmask, new_state, iter(expand(nmask, new_state))))
    return False, {'longest_prefix': best[1], 'linearized': best[0], 'of': n}


def results_equal(a, b):
    if isinstance(a, float) and isinstance(b, float):
        return a == b or (a != a and b != b)
    if type(a) is not type(b) and not (isinstance(a, (int, float)) and isinstance(b, (int, float))
                                       and not isinstance(a, bool) and not isinstance(b, bool)):
        return False
    return a == b


# ------------------------------------------------------------------ KV model
def kv_step(state, o):
    """state: tuple of sorted (key, value) pairs (keys are simple str/int)."""
    d = dict(state)
    op, a, kw = o['op'], o['args'], o.get('kw') or {}

    def out(kind, result):
        return [(tuple(sorted(d.items(), key=repr)), kind, result)]

    if op in ('set', 'setitem'):
        d[a[0]] = a[1]
        return out('ok', True if op == 'set' else None)
    if op == 'add':
        if a[0] in d:
            return out('ok', False)
        d[a[0]] = a[1]
        return out('ok', True)
    if op in ('incr', 'decr'):
        delta = a[1] if len(a) > 1 else 1
        if op == 'decr':
            delta = -delta
        default = kw.get('default', 0)
        if a[0] not in d:
            if default is None:
                return out('raise', 'KeyError')
            d[a[0]] = default + delta
            return out('ok', d[a[0]])
        v = d[a[0]]
        if type(v) not in (int, float):
            return out('raise', 'TypeError')
        d[a[0]] = v + delta
        return out('ok', d[a[0]])
    if op == 'get':
        return out('ok', d.get(a[0], a[1] if len(a) > 1 else None))
    if op == 'getitem':
        if a[0] in d:
            return out('ok', d[a[0]])
        return out('raise', 'KeyError')
    if op == 'contains':
        return out('ok', a[0] in d)
    if op == 'pop':
        default = a[1] if len(a) > 1 else None
        return out('ok', d.pop(a[0], default))
    if op == 'delete':
        if a[0] in d:
            del d[a[0]]
            return out('ok', True)
        return out('ok', False)
    if op == 'delitem':
        if a[0] in d:
            del d[a[0]]
            return out('ok', None)
        return out('raise', 'KeyError')
    if op == 'touch':
        return out('ok', a[0] in d)
    if op == 'len':
        return out('ok', len(d))
    if op == 'block':
        # composite: a list of sub-operations applied atomically, results as a tuple
        results = []
        st = tuple(sorted(d.items(), key=repr))
        for sub in a[0]:
            (st, kind, r), = kv_step(st, sub)
            results.append((kind, r))
        return [(st, 'ok', tuple(results))]
    raise ValueError(op)


WRITE_OPS = {'set', 'setitem', 'add', 'incr', 'decr', 'pop', 'delete', 'delitem', 'block', 'touch'}


def drop_tolerated_misses(ops, default_of):
    """C05's single tolerated anomaly: a lookup overlapping a write, removal
    or eviction of the same key may report a miss.  Such misses are removed
    from the history (and counted); everything else is checked strictly.
    default_of(op) -> (is_lookup, key, is_miss)."""
    kept, dropped = [], 0
    for o in ops:
        is_lookup, key, is_miss = default_of(o)
        if is_lookup and is_miss and o['ret'] is not None:
            overl = False
            for w in ops:
                if w is o or w['op'] not in WRITE_OPS:
                    continue
                wkeys = keys_of(w)
                if key not in wkeys:
                    continue
                wret = w['ret'] if w['ret'] is not None else INF
                if w['call'] < o['ret'] and o['call'] < wret:
                    overl = True
                    break
            if overl:
                dropped += 1
                continue
        kept.append(o)
    return kept, dropped


def keys_of(o):
    if o['op'] == 'block':
        ks = set()
        for sub in o['args'][0]:
            ks |= keys_of(sub)
        return ks
    return {o['args'][0]} if o['args'] else set()
