"""Independent observer: reads the SQLite tables and the directory tree without
going through diskcache, and evaluates the quiescent structural invariant."""

import enum
import io
import math
import os
import pickle
import sqlite3
import struct
from fractions import Fraction

DBNAME = 'cache.db'
COLS = ('rowid', 'key', 'raw', 'store_time', 'expire_time', 'access_time', 'access_count',
        'tag', 'size', 'mode', 'filename')


# --------------------------------------------------------------------- identity
def ident(key):
    """The documented key identity: text, bytes and numbers as in Python;
    everything else by type and structure."""
    t = type(key)
    if t is str:
        return ('s', key)
    if t is bytes:
        return ('b', key)
    if t is int and -2**63 <= key < 2**63:
        return ('n', Fraction(key))
    if t is float:
        if math.isinf(key):
            return ('n', 'inf' if key > 0 else '-inf')
        if key != key:
            return ('n', 'nan')
        return ('n', Fraction(key))
    return ('p', struct_ident(key))


def struct_ident(obj):
    t = type(obj)
    if t in (tuple, list):
        return (t.__name__,) + tuple(struct_ident(x) for x in obj)
    if t in (frozenset, set):
        return (t.__name__, frozenset(struct_ident(x) for x in obj))
    if t is float:
        return ('float', struct.pack('!d', obj))
    if t is dict:
        return ('dict', frozenset((struct_ident(k), struct_ident(v)) for k, v in obj.items()))
    return (t.__name__, obj)


def row_ident(db_key, raw):
    """Identity of a stored row from its (key, raw) columns."""
    if raw:
        if isinstance(db_key, (bytes, memoryview)):
            return ('b', bytes(db_key))
        return ident(db_key)
    return ident(pickle.load(io.BytesIO(bytes(db_key))))


def row_key(db_key, raw):
    if raw:
        return bytes(db_key) if isinstance(db_key, (bytes, memoryview)) else db_key
    return pickle.load(io.BytesIO(bytes(db_key)))


# ------------------------------------------------------------------------ same
def same(a, b):
    """Type-exact deep equality; floats by bit class (nan==nan, -0.0 != 0.0)."""
    ta, tb = type(a), type(b)
    if ta is not tb:
        return False
    if ta is float:
        if a != a or b != b:
            return a != a and b != b
        return struct.pack('!d', a) == struct.pack('!d', b)
    if ta in (list, tuple):
        return len(a) == len(b) and all(same(x, y) for x, y in zip(a, b))
    if ta is dict:
        if len(a) != len(b):
            return False
        # dict keys compared by hashing (nan keys are not generated)
        for k, v in a.items():
            if k not in b or not same(v, b[k]):
                return False
            kb = next(x for x in b if x == k)
            if type(kb) is not type(k):
                return False
        return True
    if ta in (set, frozenset):
        if len(a) != len(b):
            return False
        return {canon(x) for x in a} == {canon(x) for x in b}
    if isinstance(a, enum.Enum):
        return a is b
    if hasattr(a, '__dict__') and ta.__module__ != 'builtins':
        for base in (str, bytes, bytearray, int, float):
            if isinstance(a, base) and not same(base(a), base(b)):     # subclass of a scalar: content and attributes
                return False
        return same(dict(a.__dict__), dict(b.__dict__))
    return a == b


def canon(x):
    t = type(x)
    if t is float:
        return ('float', 'nan' if x != x else struct.pack('!d', x))
    if t in (tuple, list):
        return (t.__name__,) + tuple(canon(y) for y in x)
    if t in (set, frozenset):
        return (t.__name__, frozenset(canon(y) for y in x))
    if t is dict:
        return ('dict', frozenset((canon(k), canon(v)) for k, v in x.items()))
    return (t.__name__, x)


# ------------------------------------------------------------------------ dump
class Observer:
    def __init__(self, directory):
        self.directory = directory
        self.con = None

    def _connect(self):
        if self.con is None:
            path = os.path.join(self.directory, DBNAME)
            self.con = sqlite3.connect('file:%s?mode=ro' % path, uri=True, timeout=30,
                                       isolation_level=None, check_same_thread=False)
        return self.con

    def close(self):
        if self.con is not None:
            self.con.close()
            self.con = None

    def rows(self, with_value=False):
        """All Cache rows ordered by rowid, as dicts."""
        con = self._connect()
        cols = COLS + (('value',) if with_value else ())
        extra = ', value IS NULL' if not with_value else ''
        cur = con.execute('SELECT %s%s FROM Cache ORDER BY rowid' % (', '.join(cols), extra))
        out = []
        for r in cur.fetchall():
            d = dict(zip(cols, r))
            if not with_value:
                d['value_null'] = bool(r[-1])
            else:
                d['value_null'] = d['value'] is None
            out.append(d)
        return out

    def settings(self):
        con = self._connect()
        return dict(con.execute('SELECT key, value FROM Settings').fetchall())

    def snapshot(self):
        """(rows, settings) inside one read transaction."""
        con = self._connect()
        con.execute('BEGIN')
        try:
            return self.rows(), self.settings()
        finally:
            con.execute('COMMIT')

    def schema(self):
        con = self._connect()
        return con.execute('SELECT type, name, tbl_name, sql FROM sqlite_master ORDER BY name').fetchall()


def list_files(directory):
    """Relative paths of every file other than cache.db* with sizes, and all
    sub-directories."""
    files, dirs = {}, []
    for dirpath, dirnames, filenames in os.walk(directory):
        rel = os.path.relpath(dirpath, directory)
        if rel != '.':
            dirs.append(rel)
        for fn in filenames:
            if rel == '.' and fn.startswith(DBNAME):
                continue
            p = os.path.join(dirpath, fn)
            try:
                files[os.path.normpath(os.path.join(rel, fn))] = os.path.getsize(p)
            except OSError:
                pass
    return files, dirs


def invariant(directory, observer=None, allow_orphans=False):
    """Quiescent invariant.  Returns a list of problem strings (empty = ok).

    Settings.count == COUNT(*), Settings.size == SUM(size); every row with a
    filename names an existing file of the recorded size; filename NULL <=>
    value inline (mode RAW/PICKLE inline have non-NULL value unless the value
    itself is None-as-NULL...: see below); no unreferenced file."""
    own = observer is None
    obs = observer or Observer(directory)
    problems = []
    try:
        rows, sets = obs.snapshot()
    finally:
        if own:
            obs.close()
    if sets.get('count') != len(rows):
        problems.append('Settings.count=%r but %d rows' % (sets.get('count'), len(rows)))
    total = sum(r['size'] or 0 for r in rows)
    if sets.get('size') != total:
        problems.append('Settings.size=%r but SUM(size)=%d' % (sets.get('size'), total))
    files, dirs = list_files(directory)
    referenced = set()
    idents = set()
    for r in rows:
        kid = (bytes(r['key']) if isinstance(r['key'], (bytes, memoryview)) else r['key'], r['raw'],
               type(r['key']).__name__)
        if kid in idents:
            problems.append('duplicate (key, raw) row %r' % (kid,))
        idents.add(kid)
        fn = r['filename']
        if fn is None:
            if r['size'] not in (0, None):
                problems.append('row %d inline but size=%r' % (r['rowid'], r['size']))
            continue
        fn = os.path.normpath(fn)
        referenced.add(fn)
        if fn not in files:
            problems.append('row %d (key %r) names missing file %s' % (r['rowid'], r['key'], fn))
        elif files[fn] != r['size']:
            problems.append('row %d file %s has %d bytes, row says %r' % (r['rowid'], fn, files[fn], r['size']))
        if not r['value_null']:
            problems.append('row %d has both a filename and an inline value' % r['rowid'])
    if not allow_orphans:
        for fn in sorted(set(files) - referenced):
            problems.append('unreferenced file %s (%d bytes)' % (fn, files[fn]))
    return problems


def check_warnings(cache):
    """Run the library's own check(); return messages other than EmptyDirWarning."""
    import diskcache
    out = []
    for w in cache.check():
        if issubclass(w.category, diskcache.EmptyDirWarning):
            continue
        out.append('%s: %s' % (w.category.__name__, w.message))
    return out
