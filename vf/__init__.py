"""Runtime-monitoring machinery for python-diskcache (see /verif/DESIGN.md)."""
