"""Interposition at diskcache's outer boundary, installed from outside.

After `install()`:
  * every SQL statement executed by diskcache passes `gate('pre:VERB')` and
    `gate('post:VERB')` (or `gate('err:VERB')` when SQLite raised);
  * every value-file open / write-chunk / close passes a gate, and
    os.remove / rmdir / mkdir / rename / truncate under a watched directory
    pass a gate through a sys.addaudithook hook;
  * time.time()/time.sleep() inside diskcache come from a VClock when one is
    installed.
Nothing in /repo is edited: module globals of diskcache.core / fanout /
recipes are rebound.
"""

import builtins
import os
import sqlite3 as _sqlite3
import sys
import threading
import time as _time
import types

_state = threading.local()   # .client : id of the logical client running on this thread


class Controller:
    """Default controller: counts gates, does nothing else."""

    def gate(self, label, info=None):
        pass


class Probe:
    def __init__(self):
        self.controller = None
        self.installed = False
        self.watch_dirs = ()
        self.clock = None
        self.count = 0
        self.lock = threading.Lock()
        self.trace = None       # optional list of labels
        self.connects = 0
        self.foreign_pid_uses = 0
        self._audit_on = False
        self._audit_installed = False

    # ------------------------------------------------------------------ gates
    def gate(self, label, info=None):
        self.count += 1
        if self.trace is not None:
            self.trace.append(label)
        ctrl = self.controller
        if ctrl is not None:
            ctrl.gate(label, info)


PROBE = Probe()


def verb_of(sql):
    s = sql.lstrip()
    head = s[:24].upper()
    for v in ('BEGIN', 'COMMIT', 'ROLLBACK', 'SELECT', 'INSERT', 'UPDATE', 'DELETE', 'PRAGMA',
              'CREATE', 'DROP', 'VACUUM'):
        if head.startswith(v):
            return v
    return head.split(' ', 1)[0]


class ProbeConnection(_sqlite3.Connection):
    def __init__(self, *args, **kwargs):
        super().__init__(*args, **kwargs)
        self._vf_pid = os.getpid()
        PROBE.connects += 1

    def execute(self, sql, *args):
        if self._vf_pid != os.getpid():
            # SQLite forbids carrying an open connection across fork()
            PROBE.foreign_pid_uses += 1
        verb = verb_of(sql)
        if verb == 'PRAGMA':
            return super().execute(sql, *args)
        PROBE.gate('pre:' + verb, (sql, self))
        try:
            cur = super().execute(sql, *args)
        except BaseException as exc:
            PROBE.gate('err:' + verb, (sql, exc))
            raise
        PROBE.gate('post:' + verb, (sql, self))
        return cur

    def raw_execute(self, sql, *args):
        """Bypass the gates (used by fault injection to mimic SQLite's own rollback)."""
        return super().execute(sql, *args)


class _SqliteProxy(types.ModuleType):
    """Stands in for the sqlite3 module inside diskcache.core."""

    def __init__(self):
        super().__init__('sqlite3')
        self.__dict__.update({k: v for k, v in _sqlite3.__dict__.items() if not k.startswith('__')})
        self.connect = self._connect

    @staticmethod
    def _connect(*args, **kwargs):
        kwargs.setdefault('factory', ProbeConnection)
        return _sqlite3.connect(*args, **kwargs)


class _FileProxy:
    """Wraps a value file opened for writing so that chunks and close are gates."""

    def __init__(self, fobj, path):
        self._f = fobj
        self._path = path

    def write(self, data):
        PROBE.gate('pre:fwrite', self._path)
        n = self._f.write(data)
        PROBE.gate('post:fwrite', self._path)
        return n

    def close(self):
        try:
            PROBE.gate('pre:fclose', self._path)
        except BaseException:
            self._f.close()      # an injected close error still releases the descriptor
            raise
        self._f.close()
        PROBE.gate('post:fclose', self._path)

    def __enter__(self):
        return self

    def __exit__(self, *exc):
        self.close()
        return False

    def __getattr__(self, name):
        return getattr(self._f, name)


def _probe_open(file, mode='r', *args, **kwargs):
    writing = any(c in mode for c in 'wxa+')
    if writing:
        PROBE.gate('pre:fcreate', file)
        f = builtins.open(file, mode, *args, **kwargs)
        PROBE.gate('post:fcreate', file)
        return _FileProxy(f, file)
    PROBE.gate('pre:fopen', file)
    f = builtins.open(file, mode, *args, **kwargs)
    PROBE.gate('post:fopen', file)
    return f


_AUDIT_EVENTS = {'os.remove': 'unlink', 'os.rmdir': 'rmdir', 'os.mkdir': 'mkdir', 'os.rename': 'rename',
                 'os.truncate': 'truncate'}


def _audit(event, args):
    if not PROBE._audit_on:
        return
    name = _AUDIT_EVENTS.get(event)
    if name is None:
        return
    path = args[0]
    if isinstance(path, bytes):
        path = os.fsdecode(path)
    if not isinstance(path, str):
        return
    for d in PROBE.watch_dirs:
        if path.startswith(d):
            PROBE.gate('pre:' + name, path)
            return


class VClock:
    """Virtual clock.  time() returns the current instant and then advances by
    one tick (2**-20 s, exactly representable near the epoch used), so reads
    are strictly increasing.  All reads made since `begin()` are recorded."""

    TICK = 2.0 ** -20
    EPOCH = float(1_700_000_000)

    def __init__(self, start=None):
        self.ticks = 0
        self.base = self.EPOCH if start is None else start
        self.reads = []
        self.lock = threading.Lock()
        self.frozen = False
        self.sleep_hook = None    # callable(seconds) used by schedulers
        self.sleeps = 0

    def now_peek(self):
        return self.base + self.ticks * self.TICK

    def time(self):
        with self.lock:
            t = self.base + self.ticks * self.TICK
            if not self.frozen:
                self.ticks += 1
            self.reads.append(t)
            return t

    def begin(self):
        self.reads = []

    def advance(self, seconds):
        with self.lock:
            self.ticks += max(1, int(round(seconds / self.TICK)))

    def sleep(self, seconds):
        self.sleeps += 1
        hook = self.sleep_hook
        if hook is not None:
            hook(seconds)
        else:
            self.advance(seconds)

    # module-like surface used by diskcache: time.time(), time.sleep()
    def monotonic(self):
        return self.time()


class _TimeProxy(types.ModuleType):
    def __init__(self):
        super().__init__('time')
        self.__dict__.update({k: v for k, v in _time.__dict__.items()
                              if not k.startswith('__') and k not in ('time', 'sleep')})

    def time(self):
        c = PROBE.clock
        return c.time() if c is not None else _time.time()

    def sleep(self, seconds):
        c = PROBE.clock
        if c is not None:
            return c.sleep(seconds)
        ctrl = PROBE.controller
        if ctrl is not None and hasattr(ctrl, 'real_sleep'):
            return ctrl.real_sleep(seconds)
        return _time.sleep(seconds)


def install(audit=True):
    """Rebind diskcache's module globals.  Idempotent."""
    if PROBE.installed:
        return PROBE
    import diskcache.core as core
    import diskcache.fanout as fanout
    import diskcache.recipes as recipes
    proxy = _SqliteProxy()
    core.sqlite3 = proxy
    core.open = _probe_open
    tp = _TimeProxy()
    core.time = tp
    fanout.time = tp
    recipes.time = tp
    if audit and not PROBE._audit_installed:
        sys.addaudithook(_audit)
        PROBE._audit_installed = True
    PROBE.installed = True
    return PROBE


def set_clock(clock):
    PROBE.clock = clock
    return clock


def watch(*dirs):
    PROBE.watch_dirs = tuple(dirs)
    PROBE._audit_on = bool(dirs)


def set_controller(ctrl):
    PROBE.controller = ctrl


def reset():
    PROBE.controller = None
    PROBE.clock = None
    PROBE.trace = None
    watch()
