"""Lock-step driver: executes each API call on the real cache and on RefCache,
then compares the call's outcome, the table contents seen by the independent
observer, the counters and the structural invariant."""

import io
import os

from . import model as M
from . import observe, probe


class Mismatch(Exception):
    def __init__(self, what, witness):
        super().__init__(what)
        self.what = what
        self.witness = witness


def normalize_out(value):
    """Turn file handles into Handle(content) (and close them)."""
    if hasattr(value, 'read') and hasattr(value, 'close') and not isinstance(value, (str, bytes)):
        try:
            data = value.read()
        finally:
            value.close()
        return M.Handle(data)
    if type(value) is tuple:
        return tuple(normalize_out(v) for v in value)
    return value


# The documented signatures of the released API (parameter names after the leading ones the generators always pass
# positionally, with their documented defaults).  Keyword arguments of a generated call are turned into positional ones in
# this order for a share of the calls - handing over a documented default explicitly is the same request as leaving it out.
SIGNATURES = {
    'set': (2, [('expire', None), ('read', False), ('tag', None), ('retry', False)]),
    'add': (2, [('expire', None), ('read', False), ('tag', None), ('retry', False)]),
    'get': (1, [('default', None), ('read', False), ('expire_time', False), ('tag', False), ('retry', False)]),
    'incr': (1, [('delta', 1), ('default', 0), ('retry', False)]),
    'decr': (1, [('delta', 1), ('default', 0), ('retry', False)]),
    'touch': (1, [('expire', None), ('retry', False)]),
    'pop': (1, [('default', None), ('expire_time', False), ('tag', False), ('retry', False)]),
    'delete': (1, [('retry', False)]),
    'push': (1, [('prefix', None), ('side', 'back'), ('expire', None), ('read', False), ('tag', None), ('retry', False)]),
    'pull': (0, [('prefix', None), ('default', (None, None)), ('side', 'front'), ('expire_time', False), ('tag', False),
                 ('retry', False)]),
    'peek': (0, [('prefix', None), ('default', (None, None)), ('side', 'front'), ('expire_time', False), ('tag', False),
                 ('retry', False)]),
    'peekitem': (0, [('last', True), ('expire_time', False), ('tag', False), ('retry', False)]),
    'evict': (1, [('retry', False)]),
    'expire': (0, [('now', None), ('retry', False)]),
    'cull': (0, [('retry', False)]),
    'clear': (0, [('retry', False)]),
    'stats': (0, [('enable', True), ('reset', False)]),
}


def spell_positionally(rng, op, args, kw):
    """Return (args, kw) of the same call with a random share of its keyword arguments moved into positions."""
    sig = SIGNATURES.get(op)
    if sig is None or rng.random() < 0.5:
        return args, kw
    lead, rest = sig
    args = tuple(args)
    rest = rest[len(args) - lead:] if len(args) >= lead else None
    if not rest:
        return args, kw
    present = [i for i, (n, _) in enumerate(rest) if n in kw]
    if not present:
        return args, kw
    upto = rng.randrange(0, present[-1] + 2)           # how many of the remaining parameters go by position
    kw = dict(kw)
    extra = []
    for n, dflt in rest[:upto]:
        extra.append(kw.pop(n) if n in kw else dflt)
    return args + tuple(extra), kw


class CacheDriver:
    """kind: 'cache' | 'fanout'."""

    def __init__(self, dc, directory, cfg, kind='cache', shards=1, clock=None, check_invariant=True,
                 evict_monitor=None, disk=None):
        self.dc = dc
        self.directory = directory
        self.cfg = dict(cfg)
        self.kind = kind
        self.shards = shards
        self.clock = clock or probe.set_clock(probe.VClock())
        probe.set_clock(self.clock)
        settings = dict(cfg)
        if disk is not None:
            settings['disk'] = disk
        if kind == 'cache':
            self.real = dc.Cache(directory, **settings)
            self.shard_dirs = [directory]
        else:
            self.real = dc.FanoutCache(directory, shards=shards, **settings)
            self.shard_dirs = [os.path.join(directory, '%03d' % i) for i in range(shards)]
        self.observers = [observe.Observer(d) for d in self.shard_dirs]
        self.model = M.RefCache(
            policy=cfg.get('eviction_policy', 'least-recently-stored'),
            statistics=cfg.get('statistics', False),
            cull_limit=cfg.get('cull_limit', 10),
            min_file_size=cfg.get('disk_min_file_size', 32768),
            pickle_protocol=cfg.get('disk_pickle_protocol', 5),
            size_limit=cfg.get('size_limit', 2**30))
        self.check_invariant = check_invariant
        self.evict_monitor = evict_monitor      # callable(driver, op, removed_items, rows) for C09
        self.history = []
        self.nops = 0
        self.culled_expired = 0
        self.evicted = 0
        self.shard_of = {}       # ident -> shard index (routing must be stable)
        self.block = None        # state of an open transaction block (C06)
        import random
        self.spell_rng = random.Random(0x5be11)     # which calls are spelled positionally (deterministic per driver)
        self.positional_spellings = 0
        self._last_ok = True
        self._culled_now = {}
        self.calls_with_retry = 0

    def close(self):
        for o in self.observers:
            o.close()
        try:
            self.real.close()
        except Exception:
            pass

    # ------------------------------------------------------------ real calls
    def _real_call(self, op, args, kw):
        r = self.real
        kw = dict(kw)
        if kw.get('read') and op in ('set', 'add', 'push'):
            # value is bytes: the real side receives a stream
            args = list(args)
            idx = 0 if op == 'push' else 1
            args[idx] = io.BytesIO(args[idx])
        if op == 'setitem':
            r[args[0]] = args[1]
            return None
        if op == 'getitem':
            return r[args[0]]
        if op == 'delitem':
            del r[args[0]]
            return None
        if op == 'contains':
            return args[0] in r
        if op == 'len':
            return len(r)
        if op in ('iter', 'reversed', 'iterkeys'):
            import itertools
            cap = 2 * len(self.model.items) + 500      # an iteration that does not terminate must not hang the check
            it = iter(r) if op == 'iter' else reversed(r) if op == 'reversed' else r.iterkeys(*args, **kw)
            out = list(itertools.islice(it, cap))
            if len(out) >= cap:
                raise Mismatch('%s yields more than %d keys for %d stored items (does not terminate?)' % (
                    op, cap, len(self.model.items)), self.witness())
            return out
        # retry=True asks a call to wait for a busy database instead of raising Timeout; nobody else is writing during a
        # lock-step history, so it must not change anything: a share of the calls that accept it are made with it
        accepts_retry = op in SIGNATURES and SIGNATURES[op][1][-1][0] == 'retry'
        if 'retry' not in kw and (accepts_retry or op == 'expire') and self.spell_rng.random() < 0.2:
            kw['retry'] = True
            self.calls_with_retry += 1
        if op == 'expire' and self.kind == 'fanout':
            return r.expire(**({'retry': True} if kw.get('retry') else {}))
        pargs, pkw = spell_positionally(self.spell_rng, op, args, kw)
        if len(pargs) != len(args):
            self.positional_spellings += 1
        return getattr(r, op)(*pargs, **pkw)

    def dump(self):
        out = []
        sets = []
        for i, o in enumerate(self.observers):
            try:
                rows, s = o.snapshot()
            except Exception as exc:       # noqa: BLE001
                raise Mismatch('the database of shard %d cannot be read at the released location %s/cache.db (%s: %s)' % (
                    i, self.shard_dirs[i], type(exc).__name__, exc), self.witness())
            for row in rows:
                row['shard'] = i
            out.extend(rows)
            sets.append(s)
        return out, sets

    # ------------------------------------------------------------------ step
    def step(self, op, *args, **kw):
        """Run one call on both sides.  Raises Mismatch on disagreement and
        model.Ambiguous when an expiry instant fell inside the op's window."""
        if type(kw.get('now')) is tuple:      # ('NOW+', dt): an explicit instant relative to the virtual clock
            kw = dict(kw, now=self.clock.now_peek() + kw['now'][1])
        if self.kind == 'fanout' and op == 'expire':
            kw = {}                           # FanoutCache.expire() takes no `now`
        self.nops += 1
        self.history.append((op, args, kw))
        if len(self.history) > 4000:
            del self.history[:2000]
        self._avoid_window()
        self.clock.begin()
        try:
            got = ('ok', normalize_out(self._real_call(op, args, kw)))
        except Mismatch:
            raise
        except Exception as exc:       # noqa: BLE001 - outcome is data here
            got = ('raise', type(exc))
            self.last_exc = exc
        reads = list(self.clock.reads)
        self._last_ok = got[0] == 'ok'
        mdl = self.model
        mdl.begin(reads)               # may raise Ambiguous
        margs = args
        expected = getattr(mdl, 'op_' + op)(*margs, **{k: v for k, v in kw.items() if k != 'retry'})
        rows, sets = self.dump()
        self.removed_by_policy = 0
        if self.block is not None:
            # inside a transaction block: other connections must still see the pre-block state
            self.block['ops'] += 1
            if mdl.culling:
                self.block['culls'] += 1
            if (rows, sets) != (self.block['rows'], self.block['sets']):
                raise Mismatch('effects of an open transaction block are visible to another connection (after %s)' % op,
                               self.witness())
        else:
            self._reconcile(op, args, kw, rows, sets, reads)
        if op == 'cull' and not isinstance(expected, M.Raised):
            expected = expected + self.removed_by_policy
        # outcome
        if op in ('iter', 'reversed', 'iterkeys'):
            self._compare_keys(op, expected, got)
        elif not M.result_matches(expected, got[0], got[1]):
            raise Mismatch('%s returned %r, reference says %r' % (op, got, expected),
                           self.witness(extra={'got': got, 'expected': expected}))
        if self.check_invariant and self.block is None:
            for d in self.shard_dirs:
                problems = observe.invariant(d)
                if problems:
                    raise Mismatch('structural invariant broken after %s: %s' % (op, problems[:3]),
                                   self.witness(extra={'problems': problems[:10]}))
        return got

    def _avoid_window(self, span=12):
        """If an item expires within the next few ticks, move the clock just
        past that instant first, so that no expiry falls between two clock
        reads of one call (where the outcome legitimately depends on which
        read is compared)."""
        now = self.clock.now_peek()
        hi = now + span * self.clock.TICK
        worst = None
        for it in self.model.items:
            e = it.expire
            if e is not None and now <= e <= hi:
                worst = e if worst is None or e > worst else worst
        if worst is not None:
            self.clock.advance(worst - now + 2 * self.clock.TICK)
            self.window_avoided = getattr(self, 'window_avoided', 0) + 1

    # ------------------------------------------------- externally executed calls (C18)
    def replay_external(self, records):
        """records: [(op, args, kw, got, reads)] executed elsewhere (another process, a forked child) on a
        handle of the same directory.  Results are compared call by call; the table is reconciled once at the
        end, with the lazy-cull budget of all the writes in between."""
        mdl = self.model
        culls = 0
        last_reads = []
        for op, args, kw, got, reads in records:
            self.nops += 1
            self.history.append((op, args, kw))
            mdl.begin(list(reads))
            expected = getattr(mdl, 'op_' + op)(*args, **kw)
            if mdl.culling:
                culls += 1
            last_reads = list(reads) or last_reads
            if op in ('iter', 'reversed', 'iterkeys'):
                self._compare_keys(op, expected, got)
            elif not M.result_matches(expected, got[0], got[1]):
                raise Mismatch('%s executed by another handle returned %r, reference says %r' % (op, got, expected),
                               self.witness(extra={'got': got, 'expected': expected}))
        rows, sets = self.dump()
        mdl.culling = culls > 0
        mdl.cull_budget = mdl.cull_limit * max(culls, 1)
        try:
            self._reconcile('external-batch', (), {}, rows, sets, last_reads)
        finally:
            mdl.cull_budget = None
        if self.check_invariant:
            for d in self.shard_dirs:
                problems = observe.invariant(d)
                if problems:
                    raise Mismatch('structural invariant broken after calls by another handle: %s' % problems[:3],
                                   self.witness(extra={'problems': problems[:10]}))

    # ------------------------------------------------------------ blocks (C06)
    def begin_block(self):
        rows, sets = self.dump()
        self.block = {'rows': rows, 'sets': sets, 'snap': self.model.snapshot(), 'ops': 0, 'culls': 0,
                      'files': [observe.list_files(d)[0] for d in self.shard_dirs]}
        self.history.append(('BEGIN-BLOCK', (), {}))

    def end_block(self, committed):
        blk, self.block = self.block, None
        mdl = self.model
        self.history.append(('COMMIT-BLOCK' if committed else 'ABORT-BLOCK', (), {}))
        rows, sets = self.dump()
        if committed:
            mdl.culling = blk['culls'] > 0
            mdl.cull_budget = mdl.cull_limit * max(blk['culls'], 1)
            try:
                self._reconcile('block', (), {}, rows, sets, list(mdl.reads))
            finally:
                mdl.cull_budget = None
        else:
            mdl.restore(blk['snap'])
            if rows != blk['rows']:
                diff = [(a, b) for a, b in zip(rows, blk['rows']) if a != b][:3]
                raise Mismatch('aborted block changed the table: %d rows before, %d after; first differences %r' % (
                    len(blk['rows']), len(rows), diff), self.witness())
            if sets != blk['sets']:
                raise Mismatch('aborted block changed Settings: %r -> %r' % (
                    {k: v for k, v in blk['sets'][0].items() if k in ('count', 'size', 'hits', 'misses')},
                    {k: v for k, v in sets[0].items() if k in ('count', 'size', 'hits', 'misses')}), self.witness())
        if self.check_invariant:
            for d in self.shard_dirs:
                problems = observe.invariant(d)
                if problems:
                    raise Mismatch('structural invariant broken after %s block: %s' % (
                        'committed' if committed else 'aborted', problems[:3]),
                        self.witness(extra={'problems': problems[:10]}))

    def witness(self, extra=None, tail=25):
        w = {'config': self.cfg, 'kind': self.kind, 'shards': self.shards,
             'history_tail': [(op, args, kw) for op, args, kw in self.history[-tail:]],
             'ops_executed': self.nops}
        if extra:
            w.update(extra)
        return w

    def _compare_keys(self, op, expected_items, got):
        if got[0] != 'ok':
            raise Mismatch('%s raised %r' % (op, got[1]), self.witness())
        keys = got[1]
        exp = expected_items
        if self.kind == 'fanout':
            # shard-major order: compare as multisets in which every key appears once
            if sorted(repr(observe.ident(k)) for k in keys) != sorted(repr(it.id) for it in exp):
                raise Mismatch('%s over shards is not a permutation of the stored keys' % op,
                               self.witness(extra={'got': keys, 'expected': [it.key for it in exp]}))
            return
        bad = len(keys) != len(exp)
        if not bad:
            for k, it in zip(keys, exp):
                if observe.ident(k) != it.id or type(k) not in it.types:
                    bad = True
                    break
        if bad:
            raise Mismatch('%s order/contents differ from the reference' % op,
                           self.witness(extra={'got': keys[:50], 'expected': [it.key for it in exp][:50]}))

    # ------------------------------------------------------------- reconcile
    def _reconcile(self, op, args, kw, rows, sets, reads):
        mdl = self.model
        self._culled_now = {}
        seen = {}
        for row in rows:
            rid = observe.row_ident(row['key'], row['raw'])
            if rid in seen:
                raise Mismatch('two rows with one identity %r' % (rid,), self.witness())
            seen[rid] = row
        # rows the reference does not know
        for rid, row in seen.items():
            if rid not in mdl.by_id:
                raise Mismatch('after %s a row exists that the reference does not have: %r' % (op, row['key']),
                               self.witness())
        # rows that disappeared beyond what the call itself removes
        missing = [it for it in mdl.items if it.id not in seen]
        if missing:
            self._judge_removed(op, missing, rows, reads)
            for it in missing:
                mdl._remove(it)
        # order
        if self.kind == 'cache':
            order = [observe.row_ident(r['key'], r['raw']) for r in rows]
            if order != [it.id for it in mdl.items]:
                raise Mismatch('insertion order differs after %s' % op,
                               self.witness(extra={'got': [r['key'] for r in rows][:60],
                                                   'expected': [it.key for it in mdl.items][:60]}))
        # metadata
        for it in mdl.items:
            row = seen[it.id]
            e = it.expire
            if e != row['expire_time']:
                if it.expire_alt is not None and row['expire_time'] in it.expire_alt[1]:
                    it.expire = row['expire_time']     # another clock read of the storing call + ttl
                else:
                    raise Mismatch('expire_time of %r is %r, reference says %r (after %s)' % (
                        it.key, row['expire_time'], e, op), self.witness(extra={'reads': reads}))
            it.expire_alt = None
            tag = row['tag']
            if isinstance(tag, memoryview):
                tag = bytes(tag)
            if not (tag == it.tag and type(tag) is type(it.tag)):
                raise Mismatch('tag of %r is %r, reference says %r (after %s)' % (it.key, tag, it.tag, op),
                               self.witness())
            sh = row.get('shard', 0)
            if self.shard_of.setdefault(it.id, sh) != sh:
                raise Mismatch('key %r moved from shard %d to shard %d' % (it.key, self.shard_of[it.id], sh),
                               self.witness())
        # statistics
        hits = sum(s.get('hits', 0) for s in sets)
        misses = sum(s.get('misses', 0) for s in sets)
        if (hits, misses) != (mdl.hits, mdl.misses):
            raise Mismatch('statistics counters are (%d, %d), reference says (%d, %d) after %s' % (
                hits, misses, mdl.hits, mdl.misses, op), self.witness())
        # the lazy cull of a write that went through: it removes the expired items it meets, earliest first, as far as
        # cull_limit allows - under every eviction policy, 'none' included (items are "still lazily removed if they
        # expire").  So none may be left in the written shard while the call's budget was not used up.
        limit = getattr(mdl, 'cull_budget', None) or mdl.cull_limit
        if mdl.culling and not mdl.explicit_cull and self._last_ok and limit > 0 and reads and args:
            target = mdl.find(args[0]) if op != 'push' else None
            shard = 0 if self.kind == 'cache' else (self.shard_of.get(target.id) if target is not None else None)
            if shard is not None:
                now0 = reads[0]
                left = [it for it in mdl.items if self.shard_of.get(it.id, 0) == shard
                        and it.expire is not None and it.expire < now0]
                culled = self._culled_now.get(shard, 0)
                if left and culled < limit:
                    raise Mismatch('%s culled %d expired item(s) and left %d behind in the same shard (e.g. %r), cull_limit is %d'
                                   % (op, culled, len(left), left[0].key, limit), self.witness())

    def _judge_removed(self, op, missing, rows, reads):
        """Items vanished that the call did not itself remove: only the lazy
        cull of a write may do that, only for expired items (or, at the size
        limit, by policy: judged by evict_monitor), at most cull_limit."""
        mdl = self.model
        if not mdl.culling:
            raise Mismatch('%s made %d item(s) disappear: %r' % (op, len(missing), [it.key for it in missing][:5]),
                           self.witness())
        t1 = reads[-1] if reads else None
        expired, other = [], []
        for it in missing:
            e = it.expire
            if it.expire_alt is not None:
                is_exp = it.expire_alt[0] <= 0        # stored by this very call with a non-positive ttl
            else:
                is_exp = e is not None and t1 is not None and e < t1
            (expired if is_exp else other).append(it)
        per_shard = {}
        for it in missing:
            sh = self.shard_of.get(it.id, 0)
            per_shard[sh] = per_shard.get(sh, 0) + 1
        limit = getattr(mdl, 'cull_budget', None) or mdl.cull_limit
        if not mdl.explicit_cull and any(n > limit for n in per_shard.values()):
            raise Mismatch('%s removed %d items in one shard, cull_limit is %d' % (op, max(per_shard.values()), limit),
                           self.witness(extra={'removed': [it.key for it in missing][:20]}))
        if other:
            if self.evict_monitor is None:
                raise Mismatch('%s removed unexpired item(s) %r although the size limit is far away' % (
                    op, [it.key for it in other][:5]), self.witness())
            self.evict_monitor(self, op, other, rows)
            self.evicted += len(other)
            self.removed_by_policy = len(other)
        self.culled_expired += len(expired)
        for it in expired:
            sh = self.shard_of.get(it.id, 0)
            self._culled_now[sh] = self._culled_now.get(sh, 0) + 1

    # ---------------------------------------------------------------- readout
    def readout(self):
        """Every item the reference holds must be readable with its value
        (lookups of expired items must miss).  Uses get(), so it perturbs
        recency/frequency/statistics on both sides alike."""
        for it in list(self.model.items):
            self.step('get', it.key, 'RDOUT', expire_time=True, tag=True)
