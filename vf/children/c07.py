"""Child of C07 tiers 2 and 3.

tier 2:  python -m vf.children.c07 syscall <dir> <spec.json> <log>
         runs one program; a failing mkdir('/proc/VF_MARK') marks the end of start-up for strace.
tier 3:  python -m vf.children.c07 threads <dir> <seed> <log-prefix>
         two threads with disjoint keys loop over set/replace/delete/push/pull until killed from outside."""

import json
import os
import sys
import threading

from .. import common, crash, probe


def mark():
    try:
        os.mkdir('/proc/VF_MARK')
    except OSError:
        pass


def syscall_mode(directory, spec_path, logpath):
    dc = common.use_repo()
    probe.install(audit=False)
    with open(spec_path) as f:
        spec = json.load(f)
    kind, maxlen, program = spec['kind'], spec['maxlen'], spec['program']
    settings = spec['settings']
    cache = dc.Cache(directory, **settings)
    if kind == 'deque':
        obj = dc.Deque.fromcache(cache, maxlen=maxlen)
    elif kind == 'index':
        obj = dc.Index.fromcache(cache)
    else:
        obj = cache
    fd = os.open(logpath, os.O_WRONLY | os.O_CREAT | os.O_APPEND, 0o644)
    mark()
    for i, op in enumerate(program):
        os.write(fd, (json.dumps({'start': i}) + '\n').encode())
        try:
            crash.apply_op(dc, obj, cache, kind, op, maxlen)
            err = None
        except Exception as exc:      # noqa: BLE001
            err = type(exc).__name__
        os.write(fd, (json.dumps({'done': i, 'err': err}) + '\n').encode())
    mark()
    os.write(fd, (json.dumps({'finished': True}) + '\n').encode())
    cache.close()


def thread_ops(ti, n):
    """Deterministic op sequence of thread ti: (op, key, stamp, big)."""
    keys = ['t%d-a' % ti, 't%d-b' % ti, 't%d-c' % ti]
    for i in range(n):
        k = keys[i % 3]
        if i % 7 == 6:
            yield ('delete', k, None, False)
        else:
            yield ('set', k, 't%d-%d' % (ti, i), i % 2 == 0)


def threads_mode(directory, seed, logprefix):
    dc = common.use_repo()
    cache = dc.Cache(directory, disk_min_file_size=64, timeout=60)
    mark()

    def work(ti):
        fd = os.open('%s.%d' % (logprefix, ti), os.O_WRONLY | os.O_CREAT | os.O_APPEND, 0o644)
        for i, (op, k, st, big) in enumerate(thread_ops(ti, 100000)):
            os.write(fd, ('s %d\n' % i).encode())
            if op == 'set':
                cache.set(k, crash.payload(st, big), retry=True)
            else:
                cache.delete(k, retry=True)
            os.write(fd, ('d %d\n' % i).encode())
    ths = [threading.Thread(target=work, args=(t,), daemon=True) for t in range(2)]
    for th in ths:
        th.start()
    for th in ths:
        th.join()


if __name__ == '__main__':
    if sys.argv[1] == 'syscall':
        syscall_mode(sys.argv[2], sys.argv[3], sys.argv[4])
    else:
        threads_mode(sys.argv[2], int(sys.argv[3]), sys.argv[4])
