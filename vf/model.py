"""Reference models.  RefCache is the dictionary-with-expiry-and-tags that a
single client must observe (C03/C04/C09/C13/C18); it is written from the
documentation and DESIGN.md appendix A, not from the SQL."""

import pickle
import pickletools
import re

from .observe import ident, same

ENOVAL = ('<ENOVAL>',)      # harness-side stand-in for "no default"


class Raised:
    """Expected outcome: an exception of this type."""

    def __init__(self, exc_type, note=''):
        self.exc_type = exc_type
        self.note = note

    def __repr__(self):
        return 'Raised(%s)' % self.exc_type.__name__


class Handle:
    """Expected outcome: an open binary file handle with this content."""

    def __init__(self, data):
        self.data = data

    def __repr__(self):
        return 'Handle(%d bytes)' % len(self.data)


class Ambiguous(Exception):
    """An expiry instant fell inside the window of clock reads of one
    operation: the outcome legitimately depends on which read is compared."""


class Item:
    __slots__ = ('key', 'types', 'id', 'value', 'expire', 'expire_alt', 'tag', 'binary_file',
                 'stored_seq', 'used_seq', 'reads', 'incrs')

    def __init__(self, key, kid):
        self.key = key
        self.types = {type(key)}
        self.id = kid
        self.value = None
        self.expire = None
        self.expire_alt = None     # other admissible instants: (any clock read of the storing call) + ttl
        self.tag = None
        self.binary_file = False
        # API-level policy keys (C09): logical sequence numbers
        self.stored_seq = 0
        self.used_seq = 0
        self.reads = 0
        self.incrs = 0          # incr calls on the live item since it was last stored


def sql_eq(a, b):
    """SQLite's `a = b` for values bound from Python (None never matches)."""
    if a is None or b is None:
        return False
    num = (int, float, bool)
    if isinstance(a, num) and isinstance(b, num):
        return a == b
    if isinstance(a, str) and isinstance(b, str):
        return a == b
    if isinstance(a, bytes) and isinstance(b, bytes):
        return a == b
    return False


QUEUE_MIN, QUEUE_MAX = 0, 999999999999999


class RefCache:
    def __init__(self, policy='least-recently-stored', statistics=False, cull_limit=10,
                 min_file_size=32768, pickle_protocol=pickle.HIGHEST_PROTOCOL, size_limit=2**30):
        self.policy = policy
        self.statistics = bool(statistics)
        self.cull_limit = cull_limit
        self.T = min_file_size
        self.protocol = pickle_protocol
        self.size_limit = size_limit
        self.items = []          # insertion (rowid) order
        self.by_id = {}
        self.hits = 0
        self.misses = 0
        self.seq = 0             # logical op counter for policy keys
        self.win = (0.0, 0.0)    # clock-read window of the current op
        self.last_now = 0.0
        self.culling = False     # did the current op run the lazy cull?
        self.explicit_cull = False

    # ---------------------------------------------------------------- helpers
    def begin(self, reads):
        self.seq += 1
        self.culling = False
        self.explicit_cull = False
        self.reads = tuple(reads)
        if reads:
            self.last_now = reads[-1]
            self.win = (reads[0], reads[-1])
            t0, t1 = self.win
            if t0 != t1:
                for it in self.items:
                    if it.expire is not None and t0 <= it.expire <= t1:
                        raise Ambiguous(it.key)
        else:
            self.win = None

    @property
    def now(self):
        # a call that read no clock decides nothing by time; fall back to the last instant seen
        return self.win[0] if self.win else self.last_now

    def live(self, it):
        return it.expire is None or it.expire > self.now

    def find(self, key):
        return self.by_id.get(ident(key))

    def _is_binary_file(self, value, read):
        if read:
            return True
        return type(value) is bytes and len(value) >= self.T

    def _store(self, key, value, expire, tag, read):
        """Insert or rewrite in place (position kept)."""
        if read:
            value = value  # harness passes the bytes the stream will yield
        it = self.find(key)
        if it is None:
            it = Item(key, ident(key))
            self.items.append(it)
            self.by_id[it.id] = it
        else:
            it.types.add(type(key))
        it.value = value
        it.binary_file = self._is_binary_file(value, read)
        self._set_expire(it, expire)
        it.tag = tag
        it.stored_seq = self.seq
        it.used_seq = self.seq
        it.reads = 0
        it.incrs = 0
        return it

    def _set_expire(self, it, ttl):
        if ttl is None:
            it.expire, it.expire_alt = None, None
        else:
            # (a call that stores an expiry without reading the clock: the reference falls back to the last instant seen
            # and leaves it to the comparison with the stored row to say what went wrong)
            reads = self.reads or (self.now,)
            it.expire = reads[0] + ttl
            it.expire_alt = (ttl, frozenset(r + ttl for r in reads))

    def _remove(self, it):
        self.items.remove(it)
        del self.by_id[it.id]

    def _flags(self, value, it, expire_time, tag):
        e = it.expire if it is not None else None
        g = it.tag if it is not None else None
        if expire_time and tag:
            return (value, e, g)
        if expire_time:
            return (value, e)
        if tag:
            return (value, g)
        return value

    def _value_out(self, it, read):
        if read and it.binary_file:
            return Handle(it.value)
        return it.value

    def _touch_policy(self, it, is_read=True):
        it.used_seq = self.seq
        if is_read:
            it.reads += 1

    # ------------------------------------------------------------------- ops
    def op_set(self, key, value, expire=None, read=False, tag=None):
        self._store(key, value, expire, tag, read)
        self.culling = True
        return True

    def op_setitem(self, key, value):
        self.op_set(key, value)
        return None

    def op_add(self, key, value, expire=None, read=False, tag=None):
        it = self.find(key)
        if it is not None and self.live(it):
            return False
        self._store(key, value, expire, tag, read)
        self.culling = True
        return True

    def op_incr(self, key, delta=1, default=0):
        it = self.find(key)
        if it is None or not self.live(it):
            if default is None:
                return Raised(KeyError)
            value = default + delta
            self._store(key, value, None, None, False)
            self.culling = True
            return value
        if type(it.value) not in (int, float) or (type(it.value) is int and not -2**63 <= it.value < 2**63):
            return Raised(TypeError)
        value = it.value + delta
        if type(value) is int and not -2**63 <= value < 2**63:
            return Raised(OverflowError)
        it.value = value
        it.stored_seq = self.seq
        it.incrs += 1
        self._touch_policy(it, is_read=False)
        return value

    def op_decr(self, key, delta=1, default=0):
        return self.op_incr(key, -delta, default)

    def _lookup(self, key):
        it = self.find(key)
        if it is None or not self.live(it):
            if self.statistics:
                self.misses += 1
            return None
        if self.statistics:
            self.hits += 1
        self._touch_policy(it)
        return it

    def op_get(self, key, default=None, read=False, expire_time=False, tag=False):
        it = self._lookup(key)
        if it is None:
            return self._flags(default, None, expire_time, tag)
        return self._flags(self._value_out(it, read), it, expire_time, tag)

    def op_getitem(self, key):
        it = self._lookup(key)
        if it is None:
            return Raised(KeyError)
        return it.value

    def op_read(self, key):
        it = self._lookup(key)
        if it is None:
            return Raised(KeyError)
        return self._value_out(it, True)

    def op_contains(self, key):
        it = self.find(key)
        return it is not None and self.live(it)

    def op_pop(self, key, default=None, expire_time=False, tag=False):
        it = self.find(key)
        if it is None or not self.live(it):
            return self._flags(default, None, expire_time, tag)
        out = self._flags(it.value, it, expire_time, tag)
        self._remove(it)
        return out

    def op_delete(self, key):
        it = self.find(key)
        if it is None or not self.live(it):
            return False
        self._remove(it)
        return True

    def op_delitem(self, key):
        it = self.find(key)
        if it is None or not self.live(it):
            return Raised(KeyError)
        self._remove(it)
        return None

    def op_touch(self, key, expire=None):
        it = self.find(key)
        if it is None or not self.live(it):
            return False
        self._set_expire(it, expire)
        return True

    def op_len(self):
        return len(self.items)

    def op_iter(self):
        return [it for it in self.items]

    def op_reversed(self):
        return [it for it in reversed(self.items)]

    def sort_key(self, it):
        k = it.key
        t = type(k)
        if t is str:
            return (2, k.encode('utf-8', 'surrogatepass'), 1)
        if t is bytes:
            return (3, k, 1)
        if it.id[0] == 'n':
            return (1, k, 1)
        data = pickletools.optimize(pickle.dumps(k, protocol=self.protocol))
        return (3, data, 0)

    def op_iterkeys(self, reverse=False):
        out = sorted(self.items, key=self.sort_key)
        if reverse:
            out.reverse()
        return out

    def op_clear(self):
        n = len(self.items)
        self.items = []
        self.by_id = {}
        return n

    def op_evict(self, tag):
        gone = [it for it in self.items if sql_eq(it.tag, tag)]
        for it in gone:
            self._remove(it)
        return len(gone)

    def op_expire(self, now=None):
        t = now or self.now
        gone = [it for it in self.items if it.expire is not None and it.expire < t]
        for it in gone:
            self._remove(it)
        return len(gone)

    def op_cull(self):
        """Explicit cull: expired items first; policy eviction (if any) is
        judged by the driver from what disappeared."""
        n = self.op_expire()
        self.culling = True
        self.explicit_cull = True
        return n

    def op_create_tag_index(self):
        return None

    def op_drop_tag_index(self):
        return None

    def op_reset(self, key, value):
        # only settings that change observable behaviour of later calls are modelled
        if key == 'cull_limit':
            self.cull_limit = value
        elif key == 'disk_min_file_size':
            self.T = value               # applies to values stored from now on
        return value

    def op_stats(self, enable=True, reset=False):
        out = (self.hits, self.misses)
        if reset:
            self.hits = self.misses = 0
        self.statistics = bool(enable)
        return out

    # queues ---------------------------------------------------------------
    def _queue(self, prefix):
        if prefix is None:
            q = [it for it in self.items
                 if type(it.key) in (int, float) and it.id[0] == 'n' and QUEUE_MIN < it.key < QUEUE_MAX]
            q.sort(key=lambda it: it.key)
        else:
            pat = re.compile(re.escape(prefix) + r'-\d{15}\Z')
            lo, hi = prefix + '-000000000000000', prefix + '-999999999999999'
            q = [it for it in self.items if type(it.key) is str and pat.match(it.key) and lo < it.key < hi]
            q.sort(key=lambda it: it.key)
        return q

    def op_push(self, value, prefix=None, side='back', expire=None, read=False, tag=None):
        q = self._queue(prefix)
        if q:
            k = q[-1].key if side == 'back' else q[0].key
            num = k if prefix is None else int(k[k.rfind('-') + 1:])
            num = num + 1 if side == 'back' else num - 1
        else:
            num = 500000000000000
        key = num if prefix is None else '%s-%015d' % (prefix, num)
        self._store(key, value, expire, tag, read)
        self.culling = True
        return key

    def _head(self, prefix, side, remove_live):
        while True:
            q = self._queue(prefix)
            if not q:
                return None
            it = q[0] if side == 'front' else q[-1]
            if not self.live(it):
                self._remove(it)
                continue
            if remove_live:
                self._remove(it)
            return it

    def op_pull(self, prefix=None, default=(None, None), side='front', expire_time=False, tag=False):
        it = self._head(prefix, side, True)
        if it is None:
            return self._flags(default, None, expire_time, tag)
        return self._flags((it.key, it.value), it, expire_time, tag)

    def op_peek(self, prefix=None, default=(None, None), side='front', expire_time=False, tag=False):
        it = self._head(prefix, side, False)
        if it is None:
            return self._flags(default, None, expire_time, tag)
        return self._flags((it.key, it.value), it, expire_time, tag)

    def op_peekitem(self, last=True, expire_time=False, tag=False):
        while True:
            if not self.items:
                return Raised(KeyError)
            it = self.items[-1] if last else self.items[0]
            if not self.live(it):
                self._remove(it)
                continue
            return self._flags((it.key, it.value), it, expire_time, tag)

    # -------------------------------------------------------------- snapshots
    def snapshot(self):
        import copy
        return copy.deepcopy((self.items, self.hits, self.misses, self.statistics))

    def restore(self, snap):
        self.items, self.hits, self.misses, self.statistics = snap
        self.by_id = {it.id: it for it in self.items}


def result_matches(expected, kind, got):
    """Compare a model outcome with an observed (kind, value)."""
    if isinstance(expected, Raised):
        return kind == 'raise' and issubclass(got, expected.exc_type) and got.__name__ == expected.exc_type.__name__
    if kind == 'raise':
        return False
    return same_out(expected, got)


def same_out(exp, got):
    if isinstance(exp, Handle):
        return isinstance(got, Handle) and exp.data == got.data
    if isinstance(got, Handle):
        return False
    if type(exp) is tuple and type(got) is tuple and len(exp) == len(got):
        return all(same_out(a, b) for a, b in zip(exp, got))
    if exp is ENOVAL or got is ENOVAL:
        return exp is got
    return same(exp, got)
