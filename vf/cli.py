"""./check <ID> [--tier quick|thorough] [--replay PATH]"""

import argparse
import importlib
import json
import os
import sys
import time

from . import common


def main():
    ap = argparse.ArgumentParser()
    ap.add_argument('prop')
    ap.add_argument('--tier', default=os.environ.get('VERIF_TIER', 'quick'), choices=['quick', 'thorough'])
    ap.add_argument('--replay')
    ap.add_argument('--jobs', type=int)
    args = ap.parse_args()
    if args.jobs:
        common.NCPU = args.jobs
    prop = args.prop.upper()
    mod = importlib.import_module('vf.checks.' + prop.lower())
    seed = common.seed_from_env()
    t0 = time.monotonic()
    if args.replay:
        with open(args.replay) as f:
            rep = json.load(f)
        print(json.dumps(rep, indent=1)[:4000])
        seed = rep.get('seed', seed)
        args.tier = rep.get('tier', args.tier)
        print('re-running %s tier=%s seed=%s (checks are deterministic in the seed)' % (prop, args.tier, seed))
    plan = mod.plan(args.tier)
    result = common.run_shards(prop.lower(), args.tier, seed, plan['nshards'], plan['timeout'],
                               extra_env=plan.get('env'))
    extra = None
    if hasattr(mod, 'post'):
        extra = mod.post(result, args.tier)
    code = common.finish(
        prop, args.tier, seed, mod.LEVEL, result, mod.RULE, mod.DISTINCT, t0,
        assumptions=getattr(mod, 'ASSUMPTIONS', ()),
        required=plan.get('required', getattr(mod, 'REQUIRED', ())),
        extra=extra, exhaustive=plan.get('exhaustive'))
    sys.exit(code)


if __name__ == '__main__':
    main()
