"""Crash runner: run a small program in a forked child with the probe on and
SIGKILL the child at a chosen gate; the parent judges what is left."""

import json
import os
import sqlite3
import shutil
import signal
import time

from . import probe

BIG = 200          # stamped payload length for file-backed values (T = 64)


def payload(tag, big):
    s = '%s;' % tag
    return s * (BIG // len(s) + 1) if big else s


def decode_value(v):
    """JSON spec -> Python value."""
    if isinstance(v, dict) and 'stamp' in v:
        return payload(v['stamp'], v.get('big', False))
    if isinstance(v, dict) and 'bytes' in v:
        return payload(v['bytes'], v.get('big', False)).encode()
    if isinstance(v, dict) and 'list' in v:
        return [payload(v['list'], v.get('big', False)), 1]
    return v


class KillAt:
    """Controller: counts gates; at gate number `kill_at` the process dies."""

    def __init__(self, kill_at, commit_hook=None):
        self.n = 0
        self.kill_at = kill_at
        self.labels = []
        self.commit_hook = commit_hook
        self.busy = False

    def gate(self, label, info=None):
        if self.busy:
            return
        self.n += 1
        if self.kill_at is None:
            self.labels.append(label)
            if self.commit_hook and label in ('post:COMMIT',):
                self.busy = True
                try:
                    self.commit_hook()
                finally:
                    self.busy = False
        elif self.n == self.kill_at:
            os.kill(os.getpid(), signal.SIGKILL)


def open_target(dc, directory, kind, settings):
    """kind: cache | deque | index.  Returns (object, cache)."""
    cache = dc.Cache(directory, **settings)
    if kind == 'deque':
        return dc.Deque.fromcache(cache, maxlen=settings_maxlen(settings)), cache
    if kind == 'index':
        return dc.Index.fromcache(cache), cache
    return cache, cache


def settings_maxlen(settings):
    return None


class SqliteRollsBack:
    """Wraps the active controller for one call: the first row-writing statement fails the way SQLite documents for
    SQLITE_IOERR / SQLITE_FULL / SQLITE_NOMEM / SQLITE_INTERRUPT - the error is reported AND the transaction has been
    rolled back by SQLite itself, so the library's own ROLLBACK finds no transaction."""

    def __init__(self, inner):
        self.inner = inner
        self.fired = False

    def gate(self, label, info=None):
        if self.inner is not None:
            self.inner.gate(label, info)
        if not self.fired and label in ('pre:INSERT', 'pre:UPDATE', 'pre:DELETE') and info and info[1].in_transaction:
            self.fired = True
            info[1].raw_execute('ROLLBACK')
            raise sqlite3.OperationalError('disk I/O error (injected; SQLite rolled the transaction back)')


def apply_op(dc, obj, cache, kind, op, maxlen=None):
    name = op[0]
    if name == 'io_error':
        # the wrapped call fails at its first row-writing statement, SQLite having rolled back on its own
        outer = probe.PROBE.controller
        probe.set_controller(SqliteRollsBack(outer))
        try:
            return apply_op(dc, obj, cache, kind, tuple(op[1]), maxlen)
        finally:
            probe.set_controller(outer)
    a = [decode_value(x) for x in op[1:]]
    if kind == 'cache':
        if name == 'set':
            return obj.set(a[0], a[1], **(a[2] if len(a) > 2 else {}))
        if name == 'add':
            return obj.add(a[0], a[1])
        if name == 'incr':
            return obj.incr(a[0], a[1])
        if name == 'touch':
            return obj.touch(a[0], a[1])
        if name == 'pop':
            return obj.pop(a[0])
        if name == 'delete':
            return obj.delete(a[0])
        if name == 'push':
            return obj.push(a[0], prefix=a[1], side=a[2])
        if name == 'pull':
            return obj.pull(prefix=a[0], side=a[1])
        if name == 'clear':
            return obj.clear()
        if name == 'evict':
            return obj.evict(a[0])
        if name == 'expire':
            return obj.expire(now=time.time() + 10**6)
        if name == 'cull':
            return obj.cull()
        if name == 'block':
            with obj.transact():
                return [apply_op(dc, obj, cache, kind, sub) for sub in op[1]]
        if name == 'reopen':
            obj.close()
            dc.Cache(obj.directory).close()
            return None
        if name == 'reset':
            return obj.reset(a[0], a[1])
        if name == 'peek':
            return obj.peek(prefix=a[0], side=a[1])
        if name == 'peekitem':
            return obj.peekitem(last=a[0])
        if name == 'get':
            return obj.get(a[0])
    elif kind == 'deque':
        if name in ('append', 'appendleft'):
            return getattr(obj, name)(a[0])
        if name in ('pop', 'popleft', 'clear', 'reverse'):
            return getattr(obj, name)()
        if name == 'rotate':
            return obj.rotate(a[0])
        if name in ('extend', 'extendleft'):
            return getattr(obj, name)(a[0])
        if name == 'setitem':
            obj[a[0]] = a[1]
            return None
        if name == 'delitem':
            del obj[a[0]]
            return None
        if name == 'remove':
            return obj.remove(a[0])
        if name == 'maxlen':
            obj.maxlen = a[0]
            return None
        if name == 'block':
            with obj.transact():
                return [apply_op(dc, obj, cache, kind, sub) for sub in op[1]]
    elif kind == 'index':
        if name == 'setitem':
            obj[a[0]] = a[1]
            return None
        if name == 'delitem':
            del obj[a[0]]
            return None
        if name == 'pop':
            return obj.pop(a[0], None)
        if name == 'popitem':
            return obj.popitem(last=a[0])
        if name == 'setdefault':
            return obj.setdefault(a[0], a[1])
        if name == 'update':
            return obj.update(a[0])
        if name == 'clear':
            return obj.clear()
        if name == 'push':
            return obj.push(a[0], prefix=a[1])
        if name == 'pull':
            return obj.pull(prefix=a[0])
        if name == 'block':
            with obj.transact():
                return [apply_op(dc, obj, cache, kind, sub) for sub in op[1]]
    raise ValueError('unknown op %r for %s' % (op, kind))


NON_ATOMIC = {
    'cache': {'clear', 'evict', 'expire', 'cull'},
    'deque': {'clear', 'extend', 'extendleft', 'rotate', 'reverse'},   # (maxlen change trims inside one block: atomic)
    'index': {'clear', 'update'},
}


def contents(dc, directory, kind, maxlen=None):
    """What a fresh handle reports: complete values read through the API."""
    cache = dc.Cache(directory)
    try:
        if kind == 'deque':
            dq = dc.Deque.fromcache(cache)
            return ['%r' % (v,) for v in dq]
        out = []
        for k in cache:
            v, e, t = cache.get(k, default=('<MISSING>',), expire_time=True, tag=True)
            # expiry instants come from the wall clock and differ between runs: keep only "has one"
            out.append(('%r' % (k,), '%r' % ((v, e is not None, t),)))
        if kind == 'cache':
            out.sort()
        return out
    finally:
        cache.close()


def child_main(dc, directory, kind, settings, program, kill_at, logpath, maxlen):
    """Runs in the forked child; never returns."""
    code = 0
    try:
        fd = os.open(logpath, os.O_WRONLY | os.O_CREAT | os.O_APPEND, 0o644)
        probe.watch(directory)
        states = []
        ctrl = KillAt(kill_at)
        if kill_at is None:
            def hook():
                # content as another handle sees it right after a COMMIT inside an operation
                os.write(fd, (json.dumps({'commit_state': contents(dc, directory, kind)}) + '\n').encode())
            ctrl.commit_hook = hook
        cache = dc.Cache(directory, **settings)
        if kind == 'deque':
            obj = dc.Deque.fromcache(cache, maxlen=maxlen)
        elif kind == 'index':
            obj = dc.Index.fromcache(cache)
        else:
            obj = cache
        probe.set_controller(ctrl)
        for i, op in enumerate(program):
            os.write(fd, (json.dumps({'start': i, 'gate': ctrl.n}) + '\n').encode())
            try:
                apply_op(dc, obj, cache, kind, op, maxlen)
                err = None
            except Exception as exc:      # noqa: BLE001
                err = type(exc).__name__
            ctrl.busy = True
            st = contents(dc, directory, kind) if kill_at is None else None
            ctrl.busy = False
            os.write(fd, (json.dumps({'done': i, 'gate': ctrl.n, 'err': err, 'state': st}) + '\n').encode())
        probe.set_controller(None)
        os.write(fd, (json.dumps({'finished': True, 'gates': ctrl.n,
                                  'labels': ctrl.labels if kill_at is None else None}) + '\n').encode())
        os.close(fd)
    except BaseException:      # noqa: BLE001
        import traceback
        try:
            os.write(2, traceback.format_exc().encode())
        except OSError:
            pass
        code = 3
    os._exit(code)


def run_forked(dc, directory, kind, settings, program, kill_at, logpath, maxlen=None, timeout=60):
    """Fork, run, wait.  Returns ('killed'|'exited', status, log records)."""
    pid = os.fork()
    if pid == 0:
        child_main(dc, directory, kind, settings, program, kill_at, logpath, maxlen)
    deadline = time.monotonic() + timeout
    while True:
        wpid, status = os.waitpid(pid, os.WNOHANG)
        if wpid:
            break
        if time.monotonic() > deadline:
            os.kill(pid, signal.SIGKILL)
            os.waitpid(pid, 0)
            return 'watchdog', None, read_log(logpath)
        time.sleep(0.0005)
    how = 'killed' if os.WIFSIGNALED(status) else 'exited'
    return how, status, read_log(logpath)


def fork_call(fn, logpath, timeout=60):
    """Runs fn() in a forked child (which must end in os._exit).  Returns ('killed'|'exited'|'watchdog', status, log)."""
    pid = os.fork()
    if pid == 0:
        try:
            fn()
        finally:
            os._exit(3)
    deadline = time.monotonic() + timeout
    while True:
        wpid, status = os.waitpid(pid, os.WNOHANG)
        if wpid:
            break
        if time.monotonic() > deadline:
            os.kill(pid, signal.SIGKILL)
            os.waitpid(pid, 0)
            return 'watchdog', None, read_log(logpath)
        time.sleep(0.0005)
    how = 'killed' if os.WIFSIGNALED(status) else 'exited'
    return how, status, read_log(logpath)


def read_log(path):
    out = []
    try:
        with open(path) as f:
            for line in f:
                line = line.strip()
                if line:
                    try:
                        out.append(json.loads(line))
                    except ValueError:
                        pass        # torn last line
    except FileNotFoundError:
        pass
    return out


def copy_dir(src, dst):
    shutil.copytree(src, dst)
