"""Entry point of one shard: python -m vf.worker <module> <tier> <seed> <shard> <nshards> <out>."""

import faulthandler
import importlib
import json
import sys
import traceback

from . import common


def main():
    module, tier, seed, shard, nshards, out = sys.argv[1:7]
    faulthandler.enable()
    common.use_repo()
    mod = importlib.import_module('vf.checks.' + module)
    res = common.Result()
    try:
        mod.run_shard(tier, int(seed), int(shard), int(nshards), res)
    except BaseException as exc:  # never "held"
        tb = traceback.extract_tb(exc.__traceback__)
        inner = tb[-1].filename if tb else ''
        in_library = any(f.filename.startswith(common.REPO + '/') for f in tb[-6:])
        if in_library and not isinstance(exc, (KeyboardInterrupt, MemoryError)):
            # an API call of the tree under test raised something no oracle of this check expects; on the unchanged
            # tree this never happens (sweeps), so it is reported as a violation with the traceback as witness
            res.violation('unexpected %s raised by the library: %s' % (type(exc).__name__, exc),
                          {'shard': shard, 'traceback': traceback.format_exc()[-1500:], 'innermost': inner})
        else:
            res.inconclusive.append('harness error in shard %s: %s' % (shard, traceback.format_exc()[-1800:]))
    with open(out + '.tmp', 'w') as f:
        json.dump(res.to_json(), f, default=repr)
    import os
    os.replace(out + '.tmp', out)


if __name__ == '__main__':
    main()
