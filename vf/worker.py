"""Entry point of one shard: python -m vf.worker <module> <tier> <seed> <shard> <nshards> <out>."""

import faulthandler
import importlib
import json
import sys
import traceback

from . import common


def main():
    module, tier, seed, shard, nshards, out = sys.argv[1:7]
    faulthandler.enable()
    common.use_repo()
    mod = importlib.import_module('vf.checks.' + module)
    res = common.Result()
    try:
        mod.run_shard(tier, int(seed), int(shard), int(nshards), res)
    except BaseException:  # the harness itself failed: never "held"
        res.inconclusive.append('harness error in shard %s: %s' % (shard, traceback.format_exc()[-1800:]))
    with open(out + '.tmp', 'w') as f:
        json.dump(res.to_json(), f, default=repr)
    import os
    os.replace(out + '.tmp', out)


if __name__ == '__main__':
    main()
