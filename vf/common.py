"""Shared plumbing: locating the tree under test, scratch space, results,
known findings, evidence files and the parallel shard runner."""

import hashlib
import json
import os
import random
import shutil
import subprocess
import sys
import tempfile
import time

VERIF = os.path.dirname(os.path.dirname(os.path.abspath(__file__)))
REPO = os.environ.get('VF_REPO', '/repo')
PY = '/venv/bin/python' if os.path.exists('/venv/bin/python') else sys.executable
NCPU = int(os.environ.get('VF_JOBS', os.cpu_count() or 4))

EXIT_HELD, EXIT_VIOLATED, EXIT_INCONCLUSIVE = 0, 1, 2


def use_repo():
    """Put the tree under test first on sys.path (never a cached copy)."""
    sys.dont_write_bytecode = True
    if sys.path[0] != REPO:
        sys.path.insert(0, REPO)
    for name in list(sys.modules):
        if name == 'diskcache' or name.startswith('diskcache.'):
            mod = sys.modules[name]
            f = getattr(mod, '__file__', '') or ''
            if not f.startswith(REPO + os.sep):
                del sys.modules[name]
    import diskcache  # noqa
    f = os.path.abspath(diskcache.__file__)
    assert f.startswith(os.path.abspath(REPO) + os.sep), (f, REPO)
    return diskcache


def scratch_root():
    base = '/dev/shm' if os.path.isdir('/dev/shm') and os.access('/dev/shm', os.W_OK) else None
    return tempfile.mkdtemp(prefix='vf-', dir=base)


class Scratch:
    """A scratch directory removed on exit (also on violation)."""

    def __init__(self):
        self.root = None
        self.n = 0

    def __enter__(self):
        self.root = scratch_root()
        return self

    def __exit__(self, *exc):
        shutil.rmtree(self.root, ignore_errors=True)

    def new(self, tag='d'):
        self.n += 1
        path = os.path.join(self.root, '%s%06d' % (tag, self.n))
        return path

    def drop(self, path):
        shutil.rmtree(path, ignore_errors=True)


def jsonable(obj, depth=0):
    """Best-effort conversion of witnesses to JSON."""
    if depth > 8:
        return repr(obj)[:200]
    if obj is None or isinstance(obj, (bool, int, str)):
        if isinstance(obj, str) and len(obj) > 300:
            return obj[:120] + '...<%d chars>' % len(obj)
        if isinstance(obj, int) and abs(obj) > 2**62:
            return repr(obj)
        return obj
    if isinstance(obj, float):
        if obj != obj or obj in (float('inf'), float('-inf')):
            return repr(obj)
        return obj
    if isinstance(obj, bytes):
        return 'bytes:' + (obj[:40].hex() + ('...<%d bytes>' % len(obj) if len(obj) > 40 else ''))
    if isinstance(obj, dict):
        return {str(jsonable(k, depth + 1)): jsonable(v, depth + 1) for k, v in list(obj.items())[:200]}
    if isinstance(obj, (list, tuple, set, frozenset)):
        seq = list(obj)
        out = [jsonable(x, depth + 1) for x in seq[:200]]
        if len(seq) > 200:
            out.append('...<%d items>' % len(seq))
        return out
    return repr(obj)[:300]


class Result:
    """What one shard (or one whole check) observed."""

    def __init__(self):
        self.counters = {}
        self.distinct = {}      # name -> set of short hashes
        self.samples = []
        self.violations = []    # dicts: signature, what, witness
        self.inconclusive = []  # strings
        self.notes = []

    def count(self, name, n=1):
        self.counters[name] = self.counters.get(name, 0) + n

    def seen(self, name, obj):
        h = hashlib.sha1(repr(obj).encode('utf-8', 'backslashreplace')).hexdigest()[:12]
        self.distinct.setdefault(name, set()).add(h)

    def sample(self, obj, limit=6):
        if len(self.samples) < limit:
            self.samples.append(jsonable(obj))

    def violation(self, what, witness=None, signature=None):
        self.count('violations_raw')
        if signature is not None:
            self.count('violations_with_a_known_mechanism')
        # keep up to 50 violations without a classified mechanism and up to 10 per mechanism: occurrences of a known
        # finding must never crowd a new violation out of the report
        same = sum(1 for v in self.violations if v['signature'] == signature)
        if same < (50 if signature is None else 10):
            self.violations.append({'signature': signature, 'what': what, 'witness': jsonable(witness)})

    def new_violations(self):
        """Violations seen so far whose mechanism is not a classified (possibly known) one - for early exits."""
        return self.counters.get('violations_raw', 0) - self.counters.get('violations_with_a_known_mechanism', 0)

    def to_json(self):
        return {
            'counters': self.counters,
            'distinct': {k: sorted(v) for k, v in self.distinct.items()},
            'samples': self.samples,
            'violations': self.violations,
            'inconclusive': self.inconclusive,
            'notes': self.notes,
        }

    def merge_json(self, js):
        for k, v in js.get('counters', {}).items():
            self.counters[k] = self.counters.get(k, 0) + v
        for k, v in js.get('distinct', {}).items():
            self.distinct.setdefault(k, set()).update(v)
        for s in js.get('samples', []):
            if len(self.samples) < 8:
                self.samples.append(s)
        self.violations.extend(js.get('violations', []))
        self.inconclusive.extend(js.get('inconclusive', []))
        self.notes.extend(js.get('notes', []))


def load_known():
    path = os.path.join(VERIF, 'known_findings.json')
    try:
        with open(path) as f:
            return json.load(f)['findings']
    except FileNotFoundError:
        return []


def seed_from_env():
    try:
        return int(os.environ.get('VERIF_SEED', '0'))
    except ValueError:
        return 0


def rng_for(seed, *parts):
    h = hashlib.sha256(repr((seed,) + parts).encode()).digest()
    return random.Random(int.from_bytes(h[:8], 'big'))


def run_shards(module, tier, seed, nshards, timeout, extra_env=None):
    """Run `python -m vf.worker module tier seed shard nshards out` in
    parallel subprocesses (one per shard) and merge their results.  A worker
    that dies or times out makes the run inconclusive, never held."""
    merged = Result()
    out_dir = scratch_root()
    procs = []
    env = dict(os.environ)
    env['PYTHONDONTWRITEBYTECODE'] = '1'
    env['PYTHONPATH'] = VERIF + os.pathsep + env.get('PYTHONPATH', '')
    env.setdefault('PYTHONHASHSEED', '0')
    env['TMPDIR'] = out_dir        # diskcache's own mkdtemp() calls land in scratch that is removed below
    if extra_env:
        env.update(extra_env)
    try:
        pending = list(range(nshards))
        running = {}
        deadline = time.monotonic() + timeout
        while pending or running:
            while pending and len(running) < NCPU:
                sh = pending.pop(0)
                out = os.path.join(out_dir, 'shard%d.json' % sh)
                log = open(os.path.join(out_dir, 'shard%d.log' % sh), 'wb')
                p = subprocess.Popen(
                    [PY, '-m', 'vf.worker', module, tier, str(seed), str(sh), str(nshards), out],
                    cwd=VERIF, env=env, stdout=log, stderr=subprocess.STDOUT)
                running[sh] = (p, out, log)
            done = [sh for sh, (p, _, _) in running.items() if p.poll() is not None]
            for sh in done:
                p, out, log = running.pop(sh)
                log.close()
                if os.path.exists(out):
                    with open(out) as f:
                        merged.merge_json(json.load(f))
                else:
                    with open(log.name, 'rb') as f:
                        tail = f.read()[-1500:].decode('utf-8', 'replace')
                    merged.inconclusive.append('shard %d exited %s without a result: %s' % (sh, p.returncode, tail))
            if time.monotonic() > deadline:
                for sh, (p, out, log) in running.items():
                    p.kill()
                    log.close()
                    merged.inconclusive.append('shard %d hit the wall-clock watchdog (%ds)' % (sh, timeout))
                running.clear()
                for sh in pending:
                    merged.inconclusive.append('shard %d never started (watchdog)' % sh)
                pending = []
                break
            if not done:
                time.sleep(0.02)
    finally:
        shutil.rmtree(out_dir, ignore_errors=True)
    return merged


def finish(prop, tier, seed, level, result, rule, distinct_keys, t0,
           assumptions=(), required=(), extra=None, exhaustive=None):
    """Classify violations against known findings, write evidence, print the
    verdict lines and return the exit code.

    required: counter / distinct names that must be non-zero, otherwise the
    run is inconclusive (the deciding monitor was never reached)."""
    known = [k for k in load_known() if k['property'] == prop]
    open_sigs = {k['signature']: k for k in known if k['status'] == 'open'}
    new, absorbed = [], {}
    for v in result.violations:
        sig = v.get('signature')
        if sig and sig in open_sigs:
            absorbed.setdefault(sig, []).append(v)
        else:
            new.append(v)
    for name in required:
        n = result.counters.get(name, 0) or len(result.distinct.get(name, ()))
        if not n:
            result.inconclusive.append('coverage cell %r stayed at zero' % name)

    evaluations = result.counters.get('evaluations', 0)
    dn = set()
    for k in distinct_keys:
        dn |= {k + ':' + h for h in result.distinct.get(k, ())}
    coverage = {
        'evaluations': evaluations,
        'distinct_nontrivial': len(dn),
        'rule': rule,
        'samples': result.samples or ['(no sample recorded)'],
        'counters': dict(sorted(result.counters.items())),
        'distinct_counts': {k: len(v) for k, v in sorted(result.distinct.items())},
        'known_findings_absorbed': {k: len(v) for k, v in absorbed.items()},
        'inconclusive': result.inconclusive[:20],
    }
    if exhaustive is not None:
        coverage['exhaustive'] = bool(exhaustive)
    if extra:
        coverage.update(extra)
    ev = {
        'property_id': prop,
        'tier': tier,
        'seed': seed,
        'level': level,
        'coverage': coverage,
        'assumptions': list(assumptions),
        'wall_s': round(time.monotonic() - t0, 2),
        'violations': len(new),
    }
    no_ev = bool(os.environ.get('VF_NO_EVIDENCE'))     # mutant self-test: leave evidence/replays alone
    if not no_ev:
        os.makedirs(os.path.join(VERIF, 'evidence'), exist_ok=True)
        with open(os.path.join(VERIF, 'evidence', prop + '.json'), 'w') as f:
            json.dump(ev, f, indent=1, sort_keys=True, default=repr)
            f.write('\n')

    for sig, vs in absorbed.items():
        print('KNOWN-FINDING: property=%s %s [%d occurrence(s) kept of %d with a classified mechanism this run; e.g. %s]' % (
            prop, open_sigs[sig]['what'], len(vs), result.counters.get('violations_with_a_known_mechanism', len(vs)),
            json.dumps(vs[0]['witness'], default=repr)[:300]))
    code = EXIT_HELD
    if new and os.environ.get('VF_DUMP'):
        with open(os.environ['VF_DUMP'], 'w') as f:
            json.dump(new, f, indent=1, default=repr)
    if new:
        rdir = os.path.join(VERIF, 'replays') if not no_ev else '/dev/null'
        if not no_ev:
            os.makedirs(rdir, exist_ok=True)
        for v in new[:10]:
            body = json.dumps({'property': prop, 'tier': tier, 'seed': seed, **v}, indent=1, default=repr)
            name = '%s-%s.json' % (prop, hashlib.sha1(body.encode()).hexdigest()[:10])
            path = os.path.join(rdir, name)
            if not no_ev:
                with open(path, 'w') as f:
                    f.write(body + '\n')
            print('VIOLATION property=%s replay=%s' % (prop, path))
            print('  what: %s' % v['what'])
            print('  witness: %s' % json.dumps(v['witness'], default=repr)[:1500])
        if len(new) > 10:
            print('  (+%d further violations not written out)' % (len(new) - 10))
        code = EXIT_VIOLATED
        for msg in result.inconclusive[:5]:
            print('(also inconclusive: %s)' % msg[-600:])
    elif result.inconclusive:
        for msg in result.inconclusive[:10]:
            print('INCONCLUSIVE property=%s %s' % (prop, msg))
        code = EXIT_INCONCLUSIVE
    print('%s %s tier=%s seed=%d evaluations=%d distinct_nontrivial=%d wall=%.1fs counters=%s' % (
        prop, {0: 'HELD', 1: 'VIOLATED', 2: 'INCONCLUSIVE'}[code], tier, seed, evaluations, len(dn),
        time.monotonic() - t0, json.dumps(coverage['counters'])[:1500]))
    return code


def journal_kw(journal):
    """Constructor arguments selecting a journal mode.  'wal' is the library's default and is NOT passed, so that
    the default itself stays under test."""
    return {} if journal == 'wal' else {'sqlite_journal_mode': journal}
