"""C14 - lock timeouts fail cleanly: Cache raises, sharded caches report, nothing changes."""

import io
import os
import sqlite3

from .. import common, gen, observe, probe

PROP = 'C14'
LEVEL = 'fault_enumeration'
RULE = ('table of every public data operation of Cache, FanoutCache, DjangoCache, Deque and Index x {inline, file-backed} '
        'x lock fault {held by another connection before the call; taken at the call\'s own pre:BEGIN gate, i.e. after '
        'the value file was written; taken at the second BEGIN of a bulk removal; released after the k-th failed '
        'attempt, k in {1,3,10}} x retry off/on x connection timeout {0, 0.01}. Oracles: Cache with retry off raises '
        'Timeout (bulk: Timeout(n) with n = rows that disappeared) and table dump + file listing are unchanged; with '
        'retry / operator forms / Deque / Index the call returns only after the release and then equals the result and '
        'contents of a fault-free twin; FanoutCache/DjangoCache never raise, return False/None/default, state unchanged, '
        'aggregate removals return the exact total; lock-free lookups succeed while the lock is held, lookups that '
        'write (statistics/LRU) follow the write rule. Sibling tier: the lock is held by a transact() block of another '
        'thread using the same Cache object (nested replace/remove/create of file-backed values, commit or abort); '
        'every Cache operation issued meanwhile with retry off raises Timeout, with retry on returns after the block, '
        'and block + call leave what running them one after the other leaves, with no value file lacking a row. '
        'evaluations = cases; distinct_nontrivial = distinct (class, '
        'operation, fault, retry, timeout) cases')
DISTINCT = ('cases',)
REQUIRED = ('first_calls_of_new_threads_under_a_held_lock', 'cache_timeouts_raised', 'cache_retry_waited', 'bulk_partial_timeouts', 'fanout_reported', 'django_reported',
            'deque_waited', 'index_waited', 'lockfree_reads_ok', 'fault_taken_after_file_write', 'writing_lookups',
            'sibling_block_cases', 'rollback_journal_cases', 'commit_timeouts_raised', 'commit_retries_waited', 'fanout_bulk_totals_exact',
            'sharded_commit_failures_reported')
ASSUMPTIONS = ('stats()/reset() are configuration calls with their own retry loop and are not driven',
               'the holder is a plain sqlite3 connection holding BEGIN IMMEDIATE on the same database file, or (sibling '
               'tier) a transact() block of another thread on the same Cache object')

T = 64
BIG = 'V' * (T + 30)
BIGB = b'W' * (T + 10)


def plan(tier):
    return {'nshards': 16 if tier == 'quick' else 16, 'timeout': 900 if tier == 'quick' else 3600,
            'exhaustive': True}


class Holder:
    """Owns the write lock of one or several database files."""

    def __init__(self, dirs):
        self.cons = [sqlite3.connect(os.path.join(d, 'cache.db'), isolation_level=None, timeout=0) for d in dirs]
        self.held = False

    def take(self, exclusive=False):
        for c in self.cons:
            c.execute('BEGIN EXCLUSIVE' if exclusive else 'BEGIN IMMEDIATE')
        self.held = True

    def release(self):
        if self.held:
            for c in self.cons:
                c.execute('ROLLBACK')
            self.held = False

    def close(self):
        self.release()
        for c in self.cons:
            c.close()


class LockFault:
    """Probe controller implementing the three lock faults."""

    def __init__(self, holder, mode, k=None, nth_begin=1):
        self.holder = holder
        self.mode = mode
        self.k = k
        self.nth_begin = nth_begin
        self.begins = 0
        self.failed = 0
        self.released_at = None
        self.file_written = False

    def gate(self, label, info=None):
        if label == 'post:fclose':
            self.file_written = True
        if label == 'pre:BEGIN':
            self.begins += 1
            if self.mode == 'at_begin' and self.begins == self.nth_begin and not self.holder.held:
                self.holder.take()
        elif label == 'err:BEGIN':
            self.failed += 1
            if self.k is not None and self.failed == self.k and self.holder.held:
                self.holder.release()
                self.released_at = self.failed


def snapshot(dirs):
    out = []
    for d in dirs:
        o = observe.Observer(d)
        try:
            rows, sets = o.snapshot()
        finally:
            o.close()
        files, _ = observe.list_files(d)
        out.append((rows, {k: v for k, v in sets.items() if k in ('count', 'size', 'hits', 'misses')}, sorted(files.items())))
    return out


def populate(c):
    c.set('f', BIG, tag='t')
    c.set('s', 'small', tag='t')
    c.set('n', 5)
    c.set('b', BIGB, expire=1000)
    c.push(BIG, prefix='q')
    c.push('inline', prefix='q')
    c.push(BIGB)


# name -> (callable(cache, retry) , kind)  kind: 'write' | 'bulk' | 'read'
def cache_ops():
    ops = {
        'set inline': lambda c, r: c.set('x', 'v', retry=r),
        'set file': lambda c, r: c.set('x', BIG, retry=r),
        'set replace file': lambda c, r: c.set('f', BIGB, retry=r),
        'set stream': lambda c, r: c.set('x', io.BytesIO(BIGB), read=True, retry=r),
        'add file': lambda c, r: c.add('x', BIG, retry=r),
        'add present file': lambda c, r: c.add('f', BIGB, retry=r),
        'incr': lambda c, r: c.incr('n', 2, retry=r),
        'incr new': lambda c, r: c.incr('m', 2, retry=r),
        'decr': lambda c, r: c.decr('n', 1, retry=r),
        'touch': lambda c, r: c.touch('f', 50, retry=r),
        'pop file': lambda c, r: c.pop('f', retry=r),
        'pop inline': lambda c, r: c.pop('s', retry=r),
        'delete': lambda c, r: c.delete('f', retry=r),
        'push file': lambda c, r: c.push(BIG, prefix='q', retry=r),
        'push inline front': lambda c, r: c.push('v', side='front', retry=r),
        'pull': lambda c, r: c.pull(prefix='q', retry=r),
        'pull back int': lambda c, r: c.pull(side='back', retry=r),
        'peek': lambda c, r: c.peek(prefix='q', retry=r),
        'peekitem': lambda c, r: c.peekitem(retry=r),
    }
    return ops


def bulk_ops():
    return {
        'clear': lambda c, r: c.clear(retry=r),
        'evict': lambda c, r: c.evict('bulk', retry=r),
        'expire': lambda c, r: c.expire(now=4e9, retry=r),
        'cull': lambda c, r: c.cull(retry=r),
    }


def run_case(dc, sc, res, label, make, dirs_of, call, fault, retry, timeout, expect, cls, fresh_thread=False):
    """make(directory, timeout) -> object; dirs_of(directory) -> database dirs to lock.
    expect: 'timeout' | 'value:<x>' | 'wait' (returns after release, equals twin)."""
    d = sc.new()
    twin_d = sc.new()
    obj = make(d, timeout)
    twin = make(twin_d, timeout)
    holder = Holder(dirs_of(d))
    mode, k, nth = fault
    ctrl = LockFault(holder, mode, k, nth)
    wit = {'label': label, 'class': cls, 'fault': fault, 'retry': retry, 'timeout': timeout}
    try:
        before = snapshot(dirs_of(d))
        if mode in ('before', 'release_after'):
            holder.take()
        elif mode == 'before_exclusive':
            # (an exclusive lock - what every writer of a rollback-journal database holds during its COMMIT, and VACUUM
            # all along - keeps readers out as well)
            holder.take(exclusive=True)
        probe.watch(d)
        probe.set_controller(ctrl)

        def invoke():
            try:
                return ('ok', call(obj, retry))
            except dc.Timeout as exc:
                return ('Timeout', exc.args)
            except Exception as exc:       # noqa: BLE001
                return ('raise', '%s: %s' % (type(exc).__name__, exc))
        if fresh_thread:
            # the call is the first thing a new thread does with the object (its connection is opened by the call): the
            # outcome under the held lock is the same.  The verdict is causal, not timed: a call still running after a
            # generous wait is given the lock back, and if it then returns it had been waiting for the lock.
            import threading
            box = []
            th = threading.Thread(target=lambda: box.append(invoke()), daemon=True)
            th.start()
            th.join(8)
            if th.is_alive():
                holder.release()
                th.join(90)
                probe.set_controller(None)
                res.violation('%s %s as the first call of a new thread under a held lock did not return while the lock was held; '
                              'after the lock was released it %s' % (cls, label, 'returned %r' % (box[0],) if box else 'still did not return'),
                              dict(wit, first_call_of_a_new_thread=True))
                return
            got = box[0]
            res.count('first_calls_of_new_threads_under_a_held_lock')
            wit['first_call_of_a_new_thread'] = True
        else:
            got = invoke()
        probe.set_controller(None)
        if mode == 'before_exclusive':
            holder.release()          # (the observer below reads the database, too)
        still_held = holder.held
        res.count('evaluations')
        res.seen('cases', (cls, label, fault, retry, timeout))
        if ctrl.file_written and mode == 'at_begin':
            res.count('fault_taken_after_file_write')
        if expect == 'timeout':
            if got[0] != 'Timeout':
                res.violation('%s %s under a held lock with retry off: expected Timeout, got %r' % (cls, label, got), wit)
                return
            after = snapshot(dirs_of(d))
            if after != before:
                res.violation('%s %s raised Timeout but changed the cache: %s' % (cls, label, diff(before, after)), wit)
                return
            res.count('cache_timeouts_raised')
        elif expect == 'bulk':
            if got[0] != 'Timeout' or not got[1]:
                res.violation('%s %s interrupted after the first page: expected Timeout(n), got %r' % (cls, label, got), wit)
                return
            after = snapshot(dirs_of(d))
            gone = len(before[0][0]) - len(after[0][0])
            if got[1][0] != gone or gone <= 0:
                res.violation('%s %s raised Timeout(%r) but %d rows disappeared' % (cls, label, got[1][0], gone), wit)
                return
            holder.release()
            problems = observe.invariant(d)
            if problems:
                res.violation('%s %s after a partial bulk removal: %r' % (cls, label, problems[:3]), wit)
                return
            res.count('bulk_partial_timeouts')
        elif expect.startswith('report'):
            if got[0] != 'ok':
                res.violation('%s %s must not raise under a held lock, got %r' % (cls, label, got), wit)
                return
            want = expect_value(expect)
            if not (got[1] == want and type(got[1]) is type(want)):
                res.violation('%s %s under a held lock returned %r, expected %r' % (cls, label, got[1], want), wit)
                return
            after = snapshot(dirs_of(d))
            if after != before:
                res.violation('%s %s reported failure but changed the cache: %s' % (cls, label, diff(before, after)), wit)
                return
            res.count('fanout_reported' if cls == 'FanoutCache' else 'django_reported')
        elif expect == 'fan_total':
            # a sharded bulk removal interrupted after a committed batch: it goes on once the lock is free and returns
            # the exact number of items it removed, however many attempts failed in between
            after = snapshot(dirs_of(d))
            gone = sum(len(b[0]) for b in before) - sum(len(a[0]) for a in after)
            if got[0] != 'ok' or got[1] != gone or gone <= 0 or ctrl.failed < 2:
                res.violation('%s %s interrupted after its first batch for %d attempts returned %r, %d rows disappeared' % (
                    cls, label, ctrl.failed, got, gone), wit)
                return
            res.count('fanout_bulk_totals_exact')
        elif expect == 'wait':
            if got[0] != 'ok':
                res.violation('%s %s with retry must wait and succeed, got %r' % (cls, label, got), wit)
                return
            if still_held or ctrl.released_at is None:
                res.violation('%s %s returned while the lock was still held by another connection (failed attempts seen: %d)'
                              % (cls, label, ctrl.failed), wit)
                return
            try:
                want = ('ok', call(twin, retry))
            except Exception as exc:       # noqa: BLE001
                want = ('raise', '%s: %s' % (type(exc).__name__, exc))
            if norm(got) != norm(want):
                res.violation('%s %s after waiting returned %r, a fault-free twin returns %r' % (cls, label, got, want), wit)
                return
            a, b = contents(dc, dirs_of(d)), contents(dc, dirs_of(twin_d))
            if a != b:
                res.violation('%s %s after waiting left different contents than a fault-free twin' % (cls, label),
                              dict(wit, got=a[:6], twin=b[:6]))
                return
            problems = observe.invariant(d) if len(dirs_of(d)) == 1 else []
            if problems:
                res.violation('%s %s after waiting: %r' % (cls, label, problems[:3]), wit)
                return
            res.count({'Cache': 'cache_retry_waited', 'Deque': 'deque_waited', 'Index': 'index_waited'}.get(cls, 'other_waited'))
        elif expect == 'read':
            try:
                want = ('ok', call(twin, retry))
            except Exception as exc:       # noqa: BLE001
                want = ('raise', '%s: %s' % (type(exc).__name__, exc))
            if got[0] != 'ok' or norm(got) != norm(want):
                res.violation('%s %s needs no write but under a held lock gave %r (twin: %r)' % (cls, label, got, want), wit)
                return
            res.count('lockfree_reads_ok')
        if len(res.samples) < 3:
            res.sample(dict(wit, outcome=repr(got)[:120], failed_attempts=ctrl.failed))
    finally:
        probe.set_controller(None)
        holder.close()
        for o in (obj, twin):
            try:
                close_obj(o)
            except Exception:      # noqa: BLE001
                pass
        sc.drop(d)
        sc.drop(twin_d)


def close_obj(o):
    if hasattr(o, 'cache') and not hasattr(o, 'check'):
        o.cache.close()
    else:
        o.close()


def expect_value(expect):
    tag = expect.split(':', 1)[1]
    return {'False': False, 'None': None, 'D': 'D', 'zero': 0}[tag]


def norm(x):
    r = repr(x)
    return r


def diff(before, after):
    out = []
    for (r0, s0, f0), (r1, s1, f1) in zip(before, after):
        if len(r0) != len(r1):
            out.append('%d -> %d rows' % (len(r0), len(r1)))
        if s0 != s1:
            out.append('settings %r -> %r' % (s0, s1))
        if f0 != f1:
            out.append('files %r' % (sorted(set(f1) ^ set(f0))[:3],))
        if not out and r0 != r1:
            out.append('row contents changed')
    return '; '.join(out)[:300]


def contents(dc, dirs):
    out = []
    for d in dirs:
        c = dc.Cache(d)
        try:
            out.append(sorted((repr(k), repr(c.get(k))) for k in c))
        finally:
            c.close()
    return out


def cases(dc, journal='wal'):
    """Yield (cls, label, make, dirs_of, call, fault, retry, timeout, expect)."""
    def mk_cache(stats=False, policy='least-recently-stored'):
        def make(d, timeout):
            c = dc.Cache(d, timeout=timeout, disk_min_file_size=T, statistics=stats, eviction_policy=policy, **common.journal_kw(journal))
            populate(c)
            return c
        return make

    def mk_bulk(d, timeout):
        c = dc.Cache(d, timeout=timeout, disk_min_file_size=T, **common.journal_kw(journal))
        for i in range(230):
            c.set('k%03d' % i, BIG if i % 40 == 0 else i, tag='bulk', expire=1000)
        c.reset('size_limit', 1)          # cull() will want to evict everything
        return c
    one = lambda d: [d]    # noqa: E731
    for timeout in (0, 0.01):
        for label, call in cache_ops().items():
            yield ('Cache', label, mk_cache(), one, call, ('before', None, 1), False, timeout, 'timeout')
            yield ('Cache', label, mk_cache(), one, call, ('at_begin', None, 1), False, timeout, 'timeout')
            for k in (1, 3, 10):
                if timeout and k == 10:
                    continue
                yield ('Cache', label, mk_cache(), one, call, ('release_after', k, 1), True, timeout, 'wait')
        for label, call in bulk_ops().items():
            yield ('Cache', label, mk_bulk, one, call, ('before', None, 1), False, timeout, 'timeout')
            if label != 'cull':
                yield ('Cache', label, mk_bulk, one, call, ('at_begin', None, 2), False, timeout, 'bulk')
            yield ('Cache', label, mk_bulk, one, call, ('release_after', 3, 1), True, timeout, 'wait')
        yield ('Cache', 'cull second batch', mk_bulk, one, bulk_ops()['cull'], ('at_begin', None, 3), False, timeout, 'bulk')
    # operator forms always retry
    ops_forms = {
        'setitem file': lambda c, r: c.__setitem__('x', BIG),
        'delitem': lambda c, r: c.__delitem__('f'),
    }
    for label, call in ops_forms.items():
        for k in (1, 3):
            yield ('Cache', label, mk_cache(), one, call, ('release_after', k, 1), True, 0, 'wait')
    # lookups: lock-free path succeeds while the lock is held
    reads = {
        'get file': lambda c, r: c.get('f'),
        'get inline tags': lambda c, r: c.get('s', expire_time=True, tag=True),
        'getitem': lambda c, r: c['f'],
        'read': lambda c, r: c.read('b').read(),
        'get file as handle': lambda c, r: read_all(c.get('b', read=True)),
        'get inline read=True': lambda c, r: c.get('s', 'D', read=True, tag=True),
        'get missing read=True': lambda c, r: c.get('nope', 'D', read=True),
        'contains': lambda c, r: 'f' in c,
        'len': lambda c, r: len(c),
        'iter': lambda c, r: list(c),
        'iterkeys': lambda c, r: list(c.iterkeys()),
        'volume': lambda c, r: c.volume() > 0,
    }
    for label, call in reads.items():
        yield ('Cache', label, mk_cache(), one, call, ('before', None, 1), False, 0, 'read')
    # lookups that write (statistics / LRU / LFU) follow the write rule
    wreads = {'get': lambda c, r: c.get('f', retry=r), 'get miss': lambda c, r: c.get('nope', retry=r),
              'read': lambda c, r: read_all(c.read('b', retry=r))}
    for label, call in wreads.items():
        for mk, tag in ((mk_cache(stats=True), 'statistics'), (mk_cache(policy='least-recently-used'), 'LRU'),
                        (mk_cache(policy='least-frequently-used'), 'LFU')):
            if label == 'get miss' and tag != 'statistics':
                continue
            yield ('Cache', '%s (%s)' % (label, tag), mk, one, call, ('before', None, 1), False, 0, 'timeout')
            yield ('Cache', '%s (%s)' % (label, tag), mk, one, call, ('release_after', 2, 1), True, 0, 'wait')
    yield ('Cache', 'getitem (LRU)', mk_cache(policy='least-recently-used'), one, lambda c, r: c['f'],
           ('release_after', 2, 1), True, 0, 'wait')

    # FanoutCache: reports, never raises
    def mk_fan(d, timeout):
        f = dc.FanoutCache(d, shards=3, timeout=timeout, disk_min_file_size=T, **common.journal_kw(journal))
        f.set('f', BIG, tag='t')
        f.set('s', 'small')
        f.set('n', 5)
        for i in range(12):
            f.set('k%d' % i, i, tag='bulk', expire=1000)
        return f
    fan_dirs = lambda d: [os.path.join(d, '%03d' % i) for i in range(3)]    # noqa: E731
    fan = {
        'set file': (lambda f, r: f.set('x', BIG, retry=r), 'report:False'),
        'set replace': (lambda f, r: f.set('f', BIGB, retry=r), 'report:False'),
        'add': (lambda f, r: f.add('x', BIG, retry=r), 'report:False'),
        'touch': (lambda f, r: f.touch('f', 9, retry=r), 'report:False'),
        'incr': (lambda f, r: f.incr('n', 1, retry=r), 'report:None'),
        'decr': (lambda f, r: f.decr('n', 1, retry=r), 'report:None'),
        'pop': (lambda f, r: f.pop('f', 'D', retry=r), 'report:D'),
        'delete': (lambda f, r: f.delete('f', retry=r), 'report:False'),
    }
    for timeout in (0, 0.01):
        for label, (call, exp) in fan.items():
            yield ('FanoutCache', label, mk_fan, fan_dirs, call, ('before', None, 1), False, timeout, exp)
            yield ('FanoutCache', label, mk_fan, fan_dirs, call, ('at_begin', None, 1), False, timeout, exp)
            yield ('FanoutCache', label, mk_fan, fan_dirs, call, ('release_after', 2, 1), True, timeout, 'wait')
    def mk_fan_bulk(d, timeout):
        # (items already expired and never culled, so that expire() has as much to do as clear() and evict())
        f = dc.FanoutCache(d, shards=2, timeout=timeout, disk_min_file_size=T, cull_limit=0, **common.journal_kw(journal))
        for i in range(520):
            f.set('k%03d' % i, BIG if i % 97 == 0 else i, tag='bulk', expire=-1)
        return f
    fan2_dirs = lambda d: [os.path.join(d, '%03d' % i) for i in range(2)]    # noqa: E731
    for label, call in {'clear': lambda f, r: f.clear(), 'evict': lambda f, r: f.evict('bulk'),
                        'expire': lambda f, r: f.expire()}.items():
        for k in (2, 3):
            yield ('FanoutCache', label + ' (lock taken after the first batch)', mk_fan_bulk, fan2_dirs, call,
                   ('at_begin', k, 2), False, 0, 'fan_total')
    if journal != 'wal':
        # lookups through the sharded and the Django front ends while the database cannot even be read: they hand back
        # the default like any other call that could not be served, they do not raise
        for timeout in (0, 0.01):
            for label, call in {'get file': lambda f, r: f.get('f', 'D'), 'get inline': lambda f, r: f.get('s', 'D'),
                                'get missing': lambda f, r: f.get('nope', 'D'),
                                'get with expire_time': lambda f, r: f.get('s', 'D', expire_time=True)[0]}.items():
                yield ('FanoutCache', label + ' (database locked exclusively)', mk_fan, fan_dirs, call,
                       ('before_exclusive', None, 1), False, timeout, 'report:D')
    fan_wait = {
        'setitem': lambda f, r: f.__setitem__('x', BIG),
        'delitem': lambda f, r: f.__delitem__('f'),
        'clear': lambda f, r: f.clear(),
        'evict': lambda f, r: f.evict('bulk'),
        'expire': lambda f, r: f.expire(),
        'transact': lambda f, r: fan_transact(f),
    }
    for label, call in fan_wait.items():
        yield ('FanoutCache', label, mk_fan, fan_dirs, call, ('release_after', 3, 1), True, 0, 'wait')
    for label, call in {'get': lambda f, r: f.get('f'), 'getitem': lambda f, r: f['f'], 'contains': lambda f, r: 'f' in f,
                        'len': lambda f, r: len(f), 'iter': lambda f, r: sorted(map(repr, f))}.items():
        yield ('FanoutCache', label, mk_fan, fan_dirs, call, ('before', None, 1), False, 0, 'read')

    # DjangoCache
    def mk_dj(d, timeout):
        from diskcache import DjangoCache
        dj = DjangoCache(d, {'SHARDS': 2, 'DATABASE_TIMEOUT': timeout, 'OPTIONS': {'disk_min_file_size': T}})
        dj.set('f', BIG)
        dj.set('n', 5)
        return dj
    dj_dirs = lambda d: [os.path.join(d, '%03d' % i) for i in range(2)]    # noqa: E731
    dj = {
        'set': (lambda c, r: c.set('x', BIG, retry=r), 'report:False'),
        'add': (lambda c, r: c.add('x', BIG, retry=r), 'report:False'),
        'touch': (lambda c, r: c.touch('f', 9, retry=r), 'report:False'),
        'incr': (lambda c, r: c.incr('n', 1, retry=r), 'report:None'),
        'decr': (lambda c, r: c.decr('n', 1, retry=r), 'report:None'),
        'pop': (lambda c, r: c.pop('f', 'D', retry=r), 'report:D'),
        'delete': (lambda c, r: c.delete('f', retry=r), 'report:False'),
    }
    for label, (call, exp) in dj.items():
        yield ('DjangoCache', label, mk_dj, dj_dirs, call, ('before', None, 1), False, 0, exp)
        yield ('DjangoCache', label, mk_dj, dj_dirs, call, ('at_begin', None, 1), False, 0, exp)
        yield ('DjangoCache', label, mk_dj, dj_dirs, call, ('release_after', 2, 1), True, 0, 'wait')
    for label, call in {'get': lambda c, r: c.get('f'), 'has_key': lambda c, r: c.has_key('f'),
                        'get_many': lambda c, r: sorted(c.get_many(['f', 'n']).items())}.items():
        yield ('DjangoCache', label, mk_dj, dj_dirs, call, ('before', None, 1), False, 0, 'read')
    yield ('DjangoCache', 'clear', mk_dj, dj_dirs, lambda c, r: c.clear(), ('release_after', 3, 1), True, 0, 'wait')

    # Deque / Index always wait
    def mk_dq(d, timeout):
        c = dc.Cache(d, timeout=timeout, disk_min_file_size=T, eviction_policy='none')
        return dc.Deque.fromcache(c, [1, BIG, 'x', BIGB], maxlen=5)
    dq = {
        'append': lambda q, r: q.append(BIG), 'appendleft': lambda q, r: q.appendleft('y'), 'pop': lambda q, r: q.pop(),
        'popleft': lambda q, r: q.popleft(), 'peek': lambda q, r: q.peek(), 'setitem': lambda q, r: q.__setitem__(1, 'z'),
        'delitem': lambda q, r: q.__delitem__(0), 'rotate': lambda q, r: q.rotate(1), 'clear': lambda q, r: q.clear(),
        'extend over maxlen': lambda q, r: q.extend([7, 8, 9]), 'remove': lambda q, r: q.remove('x'),
    }
    for label, call in dq.items():
        for k in (1, 4):
            yield ('Deque', label, mk_dq, one, call, ('release_after', k, 1), True, 0, 'wait')
    for label, call in {'getitem': lambda q, r: q[1], 'len': lambda q, r: len(q), 'iter': lambda q, r: list(q)}.items():
        yield ('Deque', label, mk_dq, one, call, ('before', None, 1), False, 0, 'read')

    def mk_ix(d, timeout):
        c = dc.Cache(d, timeout=timeout, disk_min_file_size=T, eviction_policy='none')
        return dc.Index.fromcache(c, [('a', 1), ('b', BIG), ('c', BIGB)])
    ix = {
        'setitem': lambda i, r: i.__setitem__('a', BIG), 'delitem': lambda i, r: i.__delitem__('b'),
        'pop': lambda i, r: i.pop('b'), 'popitem': lambda i, r: i.popitem(), 'setdefault new': lambda i, r: i.setdefault('z', BIG),
        'update': lambda i, r: i.update({'x': 1, 'y': BIG}), 'clear': lambda i, r: i.clear(),
        'push': lambda i, r: i.push(BIG, prefix='q'), 'pull': lambda i, r: i.pull(prefix='q'),
    }
    for label, call in ix.items():
        for k in (1, 4):
            yield ('Index', label, mk_ix, one, call, ('release_after', k, 1), True, 0, 'wait')
    for label, call in {'getitem': lambda i, r: i['b'], 'contains': lambda i, r: 'b' in i, 'items': lambda i, r: list(i.items())}.items():
        yield ('Index', label, mk_ix, one, call, ('before', None, 1), False, 0, 'read')


# ------------------------------------------------ the lock is held by a transact() block of a sibling thread
class Abort(Exception):
    pass


def block_steps(c, stage):
    """The holder's nested operations: replace, remove and create file-backed values."""
    if stage == 0:
        c.set('f', BIGB)
    else:
        c.delete('b')
        c.set('new', BIG)
        c.pop('f')


def sibling_case(dc, sc, res, label, call, retry, ending, cls='Cache'):
    """One Cache object used by two threads.  Thread H opens transact(), does a nested operation, waits, does more and
    commits or aborts.  While H waits the main thread issues `call`: with retry off it must raise Timeout, with retry
    on it returns after H has ended.  Either way H's block and the call must leave exactly what running them one after
    the other leaves, and no value file without a row (the timed-out call has no effect, also not on its sibling)."""
    import threading
    d, twin_d = sc.new(), sc.new()
    wit = {'label': label, 'class': cls, 'holder': 'transact() block of a sibling thread on the same object',
           'retry': retry, 'block_ends_with': ending}
    cache = dc.Cache(d, timeout=0, disk_min_file_size=T)
    twin = dc.Cache(twin_d, timeout=0, disk_min_file_size=T)
    populate(cache)
    populate(twin)
    inside, go = threading.Event(), threading.Event()
    main = threading.current_thread()
    herr = []

    class ReleaseAfter:
        failed = 0
        events = []

        def gate(self, label_, info=None):
            me = threading.current_thread() is main
            if label_ == 'err:BEGIN' and me:
                self.failed += 1
                if self.failed == 3:
                    go.set()
            elif (me and label_ == 'post:BEGIN') or (not me and label_ in ('pre:COMMIT', 'pre:ROLLBACK')):
                self.events.append(('call' if me else 'block', label_))

    def holder():
        try:
            with cache.transact(retry=True):
                block_steps(cache, 0)
                inside.set()
                go.wait(20)
                block_steps(cache, 1)
                if ending == 'abort':
                    raise Abort()
        except Abort:
            pass
        except BaseException as exc:      # noqa: BLE001
            herr.append(repr(exc))

    th = threading.Thread(target=holder)
    try:
        th.start()
        if not inside.wait(20):
            res.inconclusive.append('%s: the sibling thread never entered its block' % label)
            go.set()
            return
        ctrl = ReleaseAfter()
        ctrl.events = []
        probe.set_controller(ctrl if retry else None)
        try:
            got = ('ok', call(cache, retry))
        except dc.Timeout as exc:
            got = ('Timeout', exc.args)
        except Exception as exc:       # noqa: BLE001
            got = ('raise', '%s: %s' % (type(exc).__name__, exc))
        probe.set_controller(None)
        # the call obtained the write lock only after the block had started to end
        first_begin = next((i for i, e in enumerate(ctrl.events) if e[0] == 'call'), None)
        ended_before_return = first_begin is not None and any(e[0] == 'block' for e in ctrl.events[:first_begin])
        go.set()
        th.join(20)
        if herr or th.is_alive():
            res.violation('%s: the sibling thread\'s block failed: %r' % (label, herr or 'still running'), wit)
            return
        res.count('evaluations')
        res.seen('cases', (cls, label, 'sibling-block', retry, ending))
        # the twin: block, then (if it was to succeed) the call
        try:
            with twin.transact():
                block_steps(twin, 0)
                block_steps(twin, 1)
                if ending == 'abort':
                    raise Abort()
        except Abort:
            pass
        if retry:
            if got[0] != 'ok' or not ended_before_return:
                res.violation('%s with retry behind a sibling thread\'s block: expected to wait and succeed, got %r '
                              '(block ended first: %s)' % (label, got, ended_before_return), wit)
                return
            try:
                want = ('ok', call(twin, retry))
            except Exception as exc:       # noqa: BLE001
                want = ('raise', '%s: %s' % (type(exc).__name__, exc))
            if norm(got) != norm(want):
                res.violation('%s after waiting for a sibling thread\'s block returned %r, run after it returns %r' % (
                    label, got, want), wit)
                return
        elif got[0] != 'Timeout':
            res.violation('%s under a lock held by a sibling thread\'s block with retry off: expected Timeout, got %r' % (
                label, got), wit)
            return
        a, b = contents(dc, [d]), contents(dc, [twin_d])
        if a != b:
            res.violation('%s: contents differ from the block (and the call) run one after the other' % label,
                          dict(wit, got=a[0][:8], expected=b[0][:8]))
            return
        problems = observe.invariant(d)
        if problems:
            res.violation('%s: after the sibling thread\'s block ended: %r' % (label, problems[:3]), wit)
            return
        res.count('sibling_block_cases')
    finally:
        probe.set_controller(None)
        go.set()
        th.join(5)
        for o in (cache, twin):
            try:
                o.close()
            except Exception:      # noqa: BLE001
                pass
        sc.drop(d)
        sc.drop(twin_d)


def sibling_cases():
    for label, call in cache_ops().items():
        for ending in ('commit', 'abort'):
            yield ('sibling ' + label, call, False, ending)
            yield ('sibling ' + label, call, True, ending)


# ------------------------------------- the lock that cannot be had is the exclusive lock of COMMIT (rollback journal)
class Reader:
    """A plain connection inside a read transaction: in a rollback-journal database a writer can begin and write, but
    its COMMIT cannot get the exclusive lock while this SHARED lock exists."""

    def __init__(self, d):
        self.con = sqlite3.connect(os.path.join(d, 'cache.db'), isolation_level=None, timeout=0)
        self.held = False

    def take(self):
        self.con.execute('BEGIN')
        self.con.execute('SELECT COUNT(*) FROM Cache').fetchall()
        self.held = True

    def release(self):
        if self.held:
            self.con.execute('ROLLBACK')
            self.held = False

    def close(self):
        self.release()
        self.con.close()


class ReaderFault:
    def __init__(self, reader, k):
        self.reader, self.k, self.failed = reader, k, 0

    def gate(self, label, info=None):
        if label == 'err:COMMIT':
            self.failed += 1
            if self.k is not None and self.failed == self.k:
                self.reader.release()


def reader_case(dc, sc, res, label, call, retry, k):
    d, twin_d = sc.new(), sc.new()
    journal = 'delete'
    wit = {'label': label, 'class': 'Cache', 'fault': 'another connection holds a read transaction while the call commits '
           '(rollback journal)', 'retry': retry, 'reader_leaves_after_failed_commits': k}
    cache = dc.Cache(d, timeout=0, disk_min_file_size=T, sqlite_journal_mode=journal)
    twin = dc.Cache(twin_d, timeout=0, disk_min_file_size=T, sqlite_journal_mode=journal)
    populate(cache)
    populate(twin)
    reader = Reader(d)
    ctrl = ReaderFault(reader, k)
    try:
        before = snapshot([d])
        reader.take()
        probe.set_controller(ctrl)
        try:
            got = ('ok', call(cache, retry))
        except dc.Timeout as exc:
            got = ('Timeout', exc.args)
        except Exception as exc:       # noqa: BLE001
            got = ('raise', '%s: %s' % (type(exc).__name__, exc))
        probe.set_controller(None)
        still = reader.held
        reader.release()
        res.count('evaluations')
        res.seen('cases', ('Cache', label, 'reader-at-commit', retry, k))
        if not ctrl.failed:
            res.count('reader_cases_without_commit_conflict')        # the call wrote nothing (e.g. peek of a live head)
            return
        if not retry:
            if got[0] != 'Timeout':
                res.violation('%s whose COMMIT cannot get its lock (a reader is active) with retry off: expected Timeout, got %r' % (
                    label, got), wit)
                return
            after = snapshot([d])
            if after != before:
                res.violation('%s raised Timeout at COMMIT but changed the cache: %s' % (label, diff(before, after)), wit)
                return
            res.count('commit_timeouts_raised')
        else:
            if got[0] != 'ok' or still:
                res.violation('%s with retry whose COMMIT had to wait for a reader: expected to wait and succeed, got %r '
                              '(reader still active: %s)' % (label, got, still), wit)
                return
            want = ('ok', call(twin, retry))
            if norm(got) != norm(want) or contents(dc, [d]) != contents(dc, [twin_d]):
                res.violation('%s after waiting for a reader at COMMIT differs from a fault-free twin: %r vs %r' % (
                    label, got, want), wit)
                return
            res.count('commit_retries_waited')
        # the handle is as usable as before
        try:
            cache.set('afterwards', BIG)
            ok = cache.get('afterwards') == BIG and cache.pop('afterwards') == BIG
        except Exception as exc:       # noqa: BLE001
            ok = False
            wit = dict(wit, later_call='%s: %s' % (type(exc).__name__, exc))
        problems = observe.invariant(d)
        if not ok or problems:
            res.violation('%s: after a COMMIT that could not get its lock the handle is unusable or the cache inconsistent: %r' % (
                label, problems[:3]), wit)
    finally:
        probe.set_controller(None)
        reader.close()
        for o in (cache, twin):
            try:
                o.close()
            except Exception:      # noqa: BLE001
                pass
        sc.drop(d)
        sc.drop(twin_d)


def reader_cases():
    for label, call in cache_ops().items():
        yield ('reader at commit: ' + label, call, False, None)
        yield ('reader at commit: ' + label, call, True, 2)


def reader_case_sharded(dc, sc, res, label, cls, call, want):
    """The same fault against FanoutCache / DjangoCache data operations (one shard, so that the reader blocks the call's
    shard): they report the failure through their return value and change nothing."""
    d = sc.new()
    if cls == 'FanoutCache':
        obj = dc.FanoutCache(d, shards=1, timeout=0, disk_min_file_size=T, sqlite_journal_mode='delete')
        obj.set('f', BIG, tag='t')
        obj.set('n', 5)
    else:
        from diskcache import DjangoCache
        obj = DjangoCache(d, {'SHARDS': 1, 'DATABASE_TIMEOUT': 0, 'OPTIONS': {'disk_min_file_size': T,
                                                                              'sqlite_journal_mode': 'delete'}})
        obj.set('f', BIG)
        obj.set('n', 5)
    shard_dir = os.path.join(d, '000')
    reader = Reader(shard_dir)
    ctrl = ReaderFault(reader, None)
    wit = {'label': label, 'class': cls, 'fault': 'another connection holds a read transaction while the call commits '
           '(rollback journal)'}
    try:
        before = snapshot([shard_dir])
        reader.take()
        probe.set_controller(ctrl)
        try:
            got = ('ok', call(obj, False))
        except Exception as exc:       # noqa: BLE001
            got = ('raise', '%s: %s' % (type(exc).__name__, exc))
        probe.set_controller(None)
        reader.release()
        res.count('evaluations')
        res.seen('cases', (cls, label, 'reader-at-commit', False, None))
        if not ctrl.failed:
            res.count('reader_cases_without_commit_conflict')
            return
        if got[0] != 'ok' or not (got[1] == want and type(got[1]) is type(want)):
            res.violation('%s %s whose COMMIT cannot get its lock: must not raise and must report %r, got %r' % (
                cls, label, want, got), wit)
            return
        after = snapshot([shard_dir])
        if after != before:
            res.violation('%s %s reported failure at COMMIT but changed the cache: %s' % (cls, label, diff(before, after)), wit)
            return
        res.count('sharded_commit_failures_reported')
    finally:
        probe.set_controller(None)
        reader.close()
        try:
            obj.close()
        except Exception:      # noqa: BLE001
            pass
        sc.drop(d)


def reader_cases_sharded():
    fan = {
        'set file': (lambda f, r: f.set('x', BIG, retry=r), False), 'set replace': (lambda f, r: f.set('f', BIGB, retry=r), False),
        'add': (lambda f, r: f.add('x', BIG, retry=r), False), 'touch': (lambda f, r: f.touch('f', 9, retry=r), False),
        'incr': (lambda f, r: f.incr('n', 1, retry=r), None), 'decr': (lambda f, r: f.decr('n', 1, retry=r), None),
        'pop': (lambda f, r: f.pop('f', 'D', retry=r), 'D'), 'delete': (lambda f, r: f.delete('f', retry=r), False),
    }
    for label, (call, want) in fan.items():
        yield ('reader at commit: ' + label, 'FanoutCache', call, want)
        yield ('reader at commit: ' + label, 'DjangoCache', call, want)


def read_all(h):
    try:
        return h.read()
    finally:
        h.close()


def fan_transact(f):
    with f.transact():
        f.set('x', 1)
    return None


def run_shard(tier, seed, shard, nshards, res):
    dc = common.use_repo()
    probe.install()
    probe.reset()
    with common.Scratch() as sc:
        table = [(c, 'wal') for c in cases(dc)] + [(c, 'delete') for c in cases(dc, 'delete') if c[0] in ('Cache', 'FanoutCache')]
        for i, (case, journal) in enumerate(table):
            if i % nshards != shard:
                continue
            cls, label, make, dirs_of, call, fault, retry, timeout, expect = case
            if journal != 'wal':
                label += ' [rollback journal]'
                res.count('rollback_journal_cases')
            if expect in ('timeout', 'bulk') and 'get' in label or label.startswith('read ('):
                res.count('writing_lookups')
            run_case(dc, sc, res, label, make, dirs_of, call, fault, retry, timeout, expect, cls)
            if fault[0] == 'before' and not timeout and (expect in ('timeout', 'read') or expect.startswith('report')) \
                    and (i // nshards) % 3 == 0:
                run_case(dc, sc, res, label, make, dirs_of, call, fault, retry, timeout, expect, cls, fresh_thread=True)
            if res.new_violations() > 10:
                return
        for i, (label, call, retry, k) in enumerate(reader_cases()):
            if i % nshards != shard:
                continue
            reader_case(dc, sc, res, label, call, retry, k)
            if res.new_violations() > 10:
                return
        for i, (label, cls, call, want) in enumerate(reader_cases_sharded()):
            if i % nshards != shard:
                continue
            reader_case_sharded(dc, sc, res, label, cls, call, want)
            if res.new_violations() > 10:
                return
        for i, (label, call, retry, ending) in enumerate(sibling_cases()):
            if i % nshards != shard:
                continue
            sibling_case(dc, sc, res, label, call, retry, ending)
            if res.new_violations() > 10:
                return
