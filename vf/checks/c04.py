"""C04 - items are visible until their expiry time passes and never afterwards."""

from .. import common, gen, probe
from ..driver import CacheDriver, Mismatch
from ..model import Ambiguous
from ..sched import Recorder, Sched

PROP = 'C04'
LEVEL = 'exploration'
RULE = ('expiry-centred histories (populations of 1/99/100/101/250 items on one shared or on spread expiry instants, '
        'ttl in {None, tiny, 0, negative, huge}, clock moves none/tiny/past-one/past-all) on Cache and '
        'FanoutCache(3), judged call by call against RefCache under a virtual clock; evaluations = calls judged; '
        'distinct_nontrivial = distinct (operation, item state live/expired/absent, outcome, container) cells plus '
        'distinct (population, shared-instant, container) expire() scenarios. Concurrent tier: 2-4 clients under the '
        'cooperative schedule fuzzer (SQL-statement granularity) - some re-create expired-but-present keys without a '
        'ttl (set/add/incr), the others only remove expired items (peekitem, peek, expire, cull, lazily culling '
        'writes, lookups); no lookup may return an expired value and afterwards every key with a completed permanent '
        'write must be present with a written value, every other key absent; distinct schedule traces with a '
        'preemption inside an operation are counted. Timed queue tier: producers/consumers of one queue whose items carry '
        'ttls of a few clock ticks; the history must be linearizable against a deque model in which every call takes '
        'effect at one instant of its own [call, return] clock window and an item is deliverable only up to its expiry '
        'instant')
DISTINCT = ('cells', 'expire_scenarios', 'concurrent_schedules_with_preemption', 'schedules')
REQUIRED = ('items_expiring_at_instant_zero', 'phases_with_twin_keys', 'calls_judged', 'concurrent_programs', 'timed_schedules_checked', 'concurrent_rewrites_of_expired_rows', 'expire_calls_over_one_page', 'lookups_of_expired_items', 'lookups_of_live_items',
            'lazy_cull_writes', 'fanout_histories', 'cache_histories', 'shared_instant_batches')
ASSUMPTIONS = ('virtual clock replaces time.time inside diskcache.core and diskcache.fanout',
               'expiry instants are positive (ttl >= -1e6 s at epoch 1.7e9): non-positive instants are outside the domain',
               'now == expire_time never occurs (positive ttls sit on odd half-ticks)')

POPS = [1, 99, 100, 101, 250]


def plan(tier):
    return {'nshards': 16 if tier == 'quick' else 64, 'timeout': 900 if tier == 'quick' else 3600}


def state_of(drv, key):
    it = drv.model.find(key)
    if it is None:
        return 'absent'
    now = drv.clock.now_peek()
    e = it.expire
    if e is None:
        return 'permanent'
    return 'live' if e > now else 'expired'


def history(dc, sc, res, rng, kind, cfg, label, scale):
    d = sc.new()
    clock = probe.set_clock(probe.VClock())
    drv = CacheDriver(dc, d, cfg, kind=kind, shards=3, clock=clock)
    T = cfg['disk_min_file_size']
    vals = [1, 2.5, 'x', b'y', 'L' * (T + 5), b'M' * (T + 9), (1, 'z'), None]

    def call(op, *a, **k):
        key = a[0] if a and op not in ('expire', 'evict', 'push') else None
        st = state_of(drv, key) if key is not None and op not in ('len', 'iter') else '-'
        got = drv.step(op, *a, **k)
        res.count('evaluations')
        res.count('calls_judged')
        out = got[1].__name__ if got[0] == 'raise' else type(got[1]).__name__
        if op in ('get', 'contains', 'getitem', 'pop', 'touch', 'incr', 'delete', 'add'):
            if st == 'expired':
                res.count('lookups_of_expired_items')
            elif st in ('live', 'permanent'):
                res.count('lookups_of_live_items')
        res.seen('cells', (op, st, out, kind))
        return got

    try:
        for phase in range(rng.randrange(2, 4)):
            n = gen.pick(rng, POPS) if rng.random() < scale else gen.pick(rng, [1, 3, 12])
            shared = rng.random() < 0.6
            ttl = gen.ttl_exact(gen.pick(rng, [0.5, 5.5, 40.0]))
            keys = ['p%d-%03d' % (phase, i) for i in range(n)]
            if rng.random() < 0.3:
                # composite keys, each followed by the bytes key that equals its stored (pickled) form: two different
                # keys whose rows differ in the raw flag only - what is done to the expiry of one is not done to the other
                import pickle
                import pickletools
                proto = cfg.get('disk_pickle_protocol', pickle.HIGHEST_PROTOCOL)
                keys = []
                for i in range(0, n, 2):
                    keys.append(('p', phase, i))
                    keys.append(pickletools.optimize(pickle.dumps(keys[-1], protocol=proto)))
                keys = keys[:max(n, 2)]
                res.count('phases_with_twin_keys')
            if shared:
                clock.frozen = True
                res.count('shared_instant_batches')
            culls_before = drv.culled_expired
            for i, k in enumerate(keys):
                v = gen.pick(rng, vals) if i % 7 == 0 else i
                t = ttl if shared else gen.ttl_exact(ttl + (i % 13) * 0.01)
                if rng.random() < 0.1 and not shared:
                    t = gen.pick(rng, [None, 0, -1.5, -1e6, gen.ttl_exact(gen.TICK), gen.ttl_exact(1e12)])
                call('set', k, v, expire=t, tag='g' if i % 5 == 0 else None)
            if rng.random() < 0.3:
                # a time-to-live that lands the stored expiry exactly on instant zero (a falsy number, not "no expiry")
                clock.frozen = True
                instant = clock.now_peek()
                call('set', 'zero-%d' % phase, 'z', expire=-instant)
                call('set', 'before-the-epoch-%d' % phase, 'z', expire=-instant - 12345.0)      # ... or before it
                if kind == 'cache':
                    call('push', 'zq', prefix=gen.pick(rng, [None, 'q']), expire=-instant)
                res.count('items_expiring_at_instant_zero')
            clock.frozen = False
            clock.advance(gen.TICK)
            if kind == 'cache' and rng.random() < 0.5:
                for _ in range(rng.randrange(1, 4)):
                    call('push', gen.pick(rng, vals), prefix=gen.pick(rng, [None, 'q']),
                         expire=gen.pick(rng, [ttl, None, -1.5, 0, 0.0]))
            # lookups while live, then after clock moves
            for move in (0, gen.TICK * 3, ttl / 2, ttl, 100.0):
                if move:
                    clock.advance(move)
                for _ in range(rng.randrange(4, 14)):
                    k = gen.pick(rng, keys)
                    op = gen.pick(rng, ['get', 'get', 'contains', 'getitem', 'touch', 'incr', 'add', 'pop', 'delete',
                                        'set', 'peekitem', 'pull', 'pull', 'peek', 'len', 'push'])
                    if op == 'get':
                        call('get', k, 'DEF', expire_time=rng.random() < 0.5, tag=rng.random() < 0.3)
                    elif op in ('contains', 'getitem', 'delete'):
                        call(op, k)
                    elif op == 'pop':
                        call('pop', k, 'DEF', expire_time=True)
                    elif op == 'touch':
                        call('touch', k, gen.pick(rng, [None, ttl, -1.5, 0, 0.0]))
                    elif op == 'incr':
                        call('incr', k, 1, default=gen.pick(rng, [0, None, 5]))
                    elif op == 'add':
                        call('add', k, 'again', expire=gen.pick(rng, [None, ttl, 0]))
                    elif op == 'set':
                        before = drv.culled_expired
                        call('set', 'w%d' % rng.randrange(5), 0)
                        if drv.culled_expired > before:
                            res.count('lazy_cull_writes')
                    elif op == 'len':
                        call('len')
                    elif kind == 'cache':
                        if op == 'push':
                            call('push', k, prefix=gen.pick(rng, [None, 'q']), side=gen.pick(rng, ['front', 'back']),
                                 expire=gen.pick(rng, [gen.ttl_exact(0.3), gen.ttl_exact(0.8), None, 0]))
                        elif op == 'peekitem':
                            call('peekitem', last=rng.random() < 0.5, expire_time=True)
                        else:
                            call(op, prefix=gen.pick(rng, [None, 'q']), side=gen.pick(rng, ['front', 'back']),
                                 expire_time=True)
            # now remove what has expired
            expired_now = sum(1 for it in drv.model.items
                              if it.expire is not None and it.expire < clock.now_peek())
            how = gen.pick(rng, ['expire', 'expire', 'cull'])
            call(how)
            if expired_now > 100:
                res.count('expire_calls_over_one_page')
            res.seen('expire_scenarios', (n, shared, kind, how, expired_now > 100))
            call('len')
            call('iter')
        drv.readout()
        res.count(kind + '_histories')
    except Ambiguous:
        res.count('ambiguous_histories_dropped')
    except Mismatch as m:
        sig = None
        res.violation(m.what, dict(m.witness, label=label), signature=sig)
    finally:
        drv.close()
        sc.drop(d)


QHEAD = 500000000000000      # the key push() gives the first item of the default queue


def concurrent(dc, sc, res, rng, label):
    """Removal of expired items racing with writers that bring the same keys back to life."""
    T = 64
    d = sc.new()
    clock = probe.set_clock(probe.VClock())
    settings = {'disk_min_file_size': T, 'timeout': 0, 'cull_limit': gen.pick(rng, [0, 1, 10]),
                'eviction_policy': gen.pick(rng, ['least-recently-stored', 'least-recently-used', 'none'])}
    setup = dc.Cache(d, **settings)
    keys = ['a', 'm', 'z', QHEAD, QHEAD + 1]
    rng.shuffle(keys)
    keys = keys[:rng.randrange(1, 5)]
    old = {}
    for k in keys:                               # expired but physically present, in this rowid order
        old[k] = ('old-%s;' % k) * (1 if rng.random() < 0.5 else T)
        setup.set(k, old[k], expire=-1.5)
    nclients = rng.randrange(2, 5)
    shared = rng.random() < 0.4
    caches = [setup if shared else dc.Cache(d, timeout=0) for _ in range(nclients)]
    counter = [0]

    def fresh(ci):
        counter[0] += 1
        return ('new-%d-%d;' % (ci, counter[0])) * (1 if rng.random() < 0.5 else T)

    prog = []
    for ci in range(nclients):
        ops = []
        writer = ci == 0 or rng.random() < 0.4
        for _ in range(rng.randrange(1, 4)):
            k = gen.pick(rng, keys)
            if writer and rng.random() < 0.7:
                r = rng.random()
                if r < 0.5:
                    ops.append(('set', (k, fresh(ci)), {}))
                elif r < 0.8:
                    ops.append(('add', (k, fresh(ci)), {}))
                else:
                    ops.append(('incr', (k, ci + 1), {}))
            else:
                what = gen.pick(rng, ['peekitem', 'peekitem', 'peekitem', 'peek', 'expire', 'cull', 'lazy', 'get',
                                      'contains', 'touch'])
                if what == 'peekitem':
                    ops.append(('peekitem', (), {'last': rng.random() < 0.5}))
                elif what == 'peek':
                    ops.append(('peek', (), {'side': gen.pick(rng, ['front', 'back'])}))
                elif what in ('expire', 'cull'):
                    ops.append((what, (), {}))
                elif what == 'lazy':
                    ops.append(('set', ('w%d' % ci, fresh(ci)), {}))
                elif what == 'touch':
                    ops.append(('touch', (k, None), {}))
                else:
                    ops.append((what, (k,), {}))
        prog.append(ops)

    def do(cache, op, args, kw):
        if op == 'contains':
            return args[0] in cache
        if op == 'get':
            return cache.get(args[0], 'MISS', retry=True)
        return getattr(cache, op)(*args, retry=True, **kw)

    strategy = gen.pick(rng, ['random', 'random', 'preempt', 'preempt', 'roundrobin', 'ops'])
    sch = Sched(rng, clock, strategy=strategy, preempt_points={rng.randrange(0, 60) for _ in range(rng.randrange(1, 4))})
    rec = Recorder(sch)

    def client(ci):
        def run():
            for op, args, kw in prog[ci]:
                rec.call(ci, op, args, lambda: do(caches[ci], op, args, kw), kw)
        return run

    try:
        completed = sch.run([client(i) for i in range(nclients)])
        probe.set_controller(None)
        wit = {'label': label, 'program': prog, 'expired_present_keys': keys, 'shared_object': shared,
               'settings': settings, 'strategy': strategy, 'trace_head': sch.trace[:60]}
        errs = sch.errors()
        if errs:
            res.violation('client thread died: %s' % (errs[0][1][1][-400:],), wit)
            return
        if not completed:
            res.count('concurrent_schedules_hit_step_cap')
            return
        wit['history'] = [{x: o[x] for x in ('client', 'op', 'args', 'kw', 'call', 'ret', 'kind', 'result')} for o in rec.ops]
        written = {}
        for o in rec.ops:
            if o['kind'] == 'raise' and not (o['op'] in ('peekitem',) and o['result'] == 'KeyError') \
                    and not (o['op'] == 'incr' and o['result'] == 'TypeError'):
                res.violation('%s raised %s (%s)' % (o['op'], o['result'], o.get('exc')), wit)
                return
            if o['op'] in ('set', 'add', 'incr') and o['args'][0] in old:
                res.count('concurrent_rewrites_of_expired_rows')
                if o['op'] == 'incr':
                    written.setdefault(o['args'][0], set()).add('<number>')
                elif o['op'] == 'set' or o['result'] is True:
                    written.setdefault(o['args'][0], set()).add(o['args'][1])
            res.count('evaluations')
            res.count('calls_judged')
        stale = set(old.values())
        for o in rec.ops:                    # an expired value is never handed out
            if o['kind'] != 'ok':
                continue
            got = o['result']
            vals = [got] if o['op'] == 'get' else [got[1]] if o['op'] in ('peekitem', 'peek') and isinstance(got, tuple) else []
            for v in vals:
                if isinstance(v, str) and v in stale:
                    res.violation('%s returned the value of an item whose expiry time had passed' % o['op'],
                                  dict(wit, returned=v[:40]))
                    return
            if o['op'] == 'touch' and got is True and o['args'][0] not in written:
                res.violation('touch brought an expired item back to life', wit)
                return
        check = dc.Cache(d)
        try:
            for k in keys:
                v = check.get(k, 'MISS')
                if k in written:
                    ok = (isinstance(v, int) and '<number>' in written[k]) or v in written[k]
                    if not ok:
                        res.violation('key %r was rewritten without a ttl by a completed call and nothing removes live '
                                      'items, yet afterwards get returns %s' % (k, repr(v)[:40]),
                                      dict(wit, key=k, candidates=[repr(x)[:30] for x in written[k]]))
                        return
                    if k not in check:
                        res.violation('key %r rewritten without a ttl is reported absent' % (k,), wit)
                        return
                elif v != 'MISS' or k in check:
                    res.violation('expired key %r is visible after the run' % (k,), wit)
                    return
        finally:
            check.close()
        res.count('concurrent_programs')
        if sch.preemptions_in_op:
            res.seen('concurrent_schedules_with_preemption', sch.trace_hash())
    finally:
        probe.set_controller(None)
        for c in set(caches) | {setup}:
            try:
                c.close()
            except Exception:     # noqa: BLE001
                pass
        sc.drop(d)


def run_shard(tier, seed, shard, nshards, res):
    dc = common.use_repo()
    probe.install()
    n = 10 if tier == 'quick' else 80
    with common.Scratch() as sc:
        for i in range(60 if tier == 'quick' else 600):
            rng = common.rng_for(seed, 'c04c', shard, i)
            concurrent(dc, sc, res, rng, 'c04 concurrent seed=%d shard=%d i=%d' % (seed, shard, i))
            if res.new_violations() > 10:
                return
        # "never pulled as a live item" while calls are in flight: the timed queue histories of C10, judged here too
        from . import c10 as queues
        for i in range(40 if tier == 'quick' else 500):
            rng = common.rng_for(seed, 'c04t', shard, i)
            queues.timed_schedule(dc, sc, res, rng, 'c04 timed queue schedule seed=%d shard=%d i=%d' % (seed, shard, i))
            if res.new_violations() > 10:
                return
    with common.Scratch() as sc:
        for i in range(n):
            rng = common.rng_for(seed, 'c04', shard, i)
            kind = 'fanout' if i % 3 == 2 else 'cache'
            cfg = {'eviction_policy': gen.pick(rng, ['least-recently-stored', 'least-recently-used',
                                                     'least-frequently-used', 'none']),
                   'statistics': rng.random() < 0.3,
                   'disk_min_file_size': gen.pick(rng, [0, 64]),
                   'cull_limit': gen.pick(rng, [0, 1, 10, 10])}
            label = 'c04 seed=%d shard=%d i=%d kind=%s' % (seed, shard, i, kind)
            history(dc, sc, res, rng, kind, cfg, label, scale=0.6)
            if len(res.samples) < 2:
                res.sample({'label': label, 'config': cfg})
            if res.new_violations() > 10:
                return
