"""C06 - transaction blocks are all-or-nothing, isolated, nestable, thread-owned."""

import collections
import os

from .. import common, gen, lin, observe, probe
from ..driver import CacheDriver, Mismatch
from ..model import Ambiguous
from ..sched import LateHandles, Recorder, Sched, store_gates

PROP = 'C06'
LEVEL = 'exploration'
RULE = ('(a) generated block bodies (reads/sets/replaces/deletes/pops/pulls/incr/bulk removals over inline and '
        'file-backed values, nested blocks incl. inner exceptions caught by the outer body) are aborted after their '
        'j-th operation for EVERY j and with RuntimeError / KeyError-from-an-operation / KeyboardInterrupt; afterwards '
        'table dump, counters, value files and a full read-out must equal the pre-block snapshot; inside the block an '
        'independent connection must keep seeing the pre-block state; the final run commits and is compared with the '
        'reference. (b,c) under the schedule fuzzer competing block writers, single-call writers and snapshot readers '
        'run on shared/separate objects; blocks are checked as composite atomic operations (linearizability), snapshot '
        'readers must never see a mixed stamp, and a second thread on the same object must wait or time out. '
        'evaluations = (body, raise point) executions + schedules; distinct_nontrivial = distinct (container, '
        'exception type, operation mix at the raise point) cells + distinct schedules with a preemption inside a block'
        ' Plus: calls that FAIL inside a block and are caught by the body (unbindable tag, incr of text, bad expire) have no effect, block committed or abandoned (read-out and check()).')
DISTINCT = ('abort_cells', 'block_schedules', 'block_plan_schedules')
REQUIRED = ('calls_failing_inside_blocks', 'blocks_with_failing_calls_committed', 'blocks_with_failing_calls_abandoned', 'block_schedules_through_a_sharded_cache', 'block_plan_schedules_judged', 'aborts_judged', 'commits_judged', 'nested_blocks', 'aborted_after_file_removal', 'aborted_after_file_write',
            'deque_blocks', 'index_blocks', 'fanout_blocks', 'block_schedules_run', 'snapshot_reads',
            'foreign_thread_attempts', 'blocks_whose_commit_had_to_wait')
ASSUMPTIONS = ('the reference model is flat: only the outermost block exit decides commit or rollback',
               'snapshot reads use one deferred read transaction of an independent SQLite connection (WAL)')

T = 64


class Boom(RuntimeError):
    pass


class InnerBoom(Exception):
    pass


def plan(tier):
    return {'nshards': 16 if tier == 'quick' else 64, 'timeout': 900 if tier == 'quick' else 5400}


def gen_body(rng, keys, vals, kind, depth=0):
    n = rng.randrange(2, 7)
    body = []
    for _ in range(n):
        r = rng.random()
        if depth < 2 and r < 0.18:
            body.append(('nested', gen_body(rng, keys, vals, kind, depth + 1), rng.random() < 0.3))
            continue
        k = gen.pick(rng, keys)
        op = gen.pick(rng, ['set', 'set', 'set', 'add', 'get', 'getitem_safe', 'incr', 'pop', 'pop', 'delete', 'delete',
                            'touch', 'len', 'push', 'pull', 'peek', 'peekitem', 'evict', 'expire', 'clear', 'contains',
                            'setitem', 'cull'])
        if kind == 'fanout' and op in ('push', 'pull', 'peek', 'peekitem'):
            op = 'set'
        if op in ('set', 'add'):
            kw = {}
            if rng.random() < 0.3:
                kw['expire'] = gen.pick(rng, [gen.ttl_exact(5.5), gen.ttl_exact(50.5), None])
            if rng.random() < 0.3:
                kw['tag'] = gen.pick(rng, ['t', None])
            body.append((op, (k, gen.pick(rng, vals)), kw))
        elif op == 'setitem':
            body.append((op, (k, gen.pick(rng, vals)), {}))
        elif op == 'get':
            body.append((op, (k, 'DEF'), {'expire_time': rng.random() < 0.3}))
        elif op == 'getitem_safe':
            body.append(('get', (k,), {}))
        elif op == 'incr':
            body.append((op, (k, 1), {'default': gen.pick(rng, [0, 5])}))
        elif op == 'pop':
            body.append((op, (k, 'DEF'), {}))
        elif op in ('delete', 'contains'):
            body.append((op, (k,), {}))
        elif op == 'touch':
            body.append((op, (k, gen.pick(rng, [None, gen.ttl_exact(9.5)])), {}))
        elif op in ('len', 'expire', 'clear', 'cull'):
            if op == 'clear' and rng.random() < 0.7:
                op = 'len'
            body.append((op, (), {}))
        elif op == 'push':
            body.append((op, (gen.pick(rng, vals),), {'prefix': gen.pick(rng, [None, 'q']),
                                                      'side': gen.pick(rng, ['back', 'front'])}))
        elif op in ('pull', 'peek'):
            body.append((op, (), {'prefix': gen.pick(rng, [None, 'q']), 'side': gen.pick(rng, ['back', 'front'])}))
        elif op == 'peekitem':
            body.append((op, (), {'last': rng.random() < 0.5}))
        elif op == 'evict':
            body.append((op, ('t',), {}))
    return body


def leaves(body):
    n = 0
    for el in body:
        n += leaves(el[1]) if el[0] == 'nested' else 1
    return n


def exec_body(drv, body, raise_at, counter, exc_kind, res, info):
    for el in body:
        if el[0] == 'nested':
            res.count('nested_blocks')
            try:
                with drv.real.transact():
                    exec_body(drv, el[1], raise_at, counter, exc_kind, res, info)
                    if el[2]:
                        raise InnerBoom()
            except InnerBoom:
                pass
            continue
        if counter[0] == raise_at:
            if exc_kind == 'KeyError-from-op':
                drv.real['no-such-key-%d' % raise_at]      # raises KeyError out of the block
                raise AssertionError('expected KeyError')
            raise {'RuntimeError': Boom, 'KeyboardInterrupt': KeyboardInterrupt}[exc_kind]()
        counter[0] += 1
        op, args, kw = el
        if op in ('set', 'add', 'setitem', 'push'):
            v = args[-1] if op != 'push' else args[0]
            if isinstance(v, (str, bytes)) and len(v) >= T:
                info['file_writes'] += 1
        if op in ('pop', 'delete', 'pull', 'clear', 'evict', 'expire', 'set', 'setitem', 'cull', 'add', 'incr'):
            it = drv.model.find(args[0]) if args and op not in ('evict',) else None
            if it is not None and isinstance(it.value, (str, bytes)) and len(it.value) >= T:
                info['file_removals'] += 1
            if op in ('clear', 'pull', 'evict', 'expire', 'cull'):
                info['file_removals'] += 1 if any(
                    isinstance(x.value, (str, bytes)) and len(x.value) >= T for x in drv.model.items) else 0
        drv.step(op, *args, **kw)


def trial_cache(dc, sc, res, rng, kind, label):
    cfg = {'eviction_policy': gen.pick(rng, ['least-recently-stored', 'least-recently-used', 'none']),
           'statistics': rng.random() < 0.4, 'disk_min_file_size': T, 'cull_limit': gen.pick(rng, [0, 10])}
    d = sc.new()
    clock = probe.set_clock(probe.VClock())
    drv = CacheDriver(dc, d, cfg, kind=kind, shards=3, clock=clock)
    keys = ['a', 'b', 'c', 'd', -4, (1, 'x')]
    vals = [1, 'v', 'F' * (T + 7), b'G' * (T + 3), ['H' * (T + 20)], None, 2.5, b'small', 'w' * (T - 1)]
    try:
        for k in keys:
            if rng.random() < 0.8:
                drv.step('set', k, gen.pick(rng, vals), tag=gen.pick(rng, ['t', None]),
                         expire=gen.pick(rng, [None, None, gen.ttl_exact(3.5)]))
        if kind == 'cache':
            for _ in range(rng.randrange(0, 4)):
                drv.step('push', gen.pick(rng, vals), prefix=gen.pick(rng, [None, 'q']))
        clock.advance(gen.pick(rng, [0.0, 1.0, 4.0]) + gen.TICK)
        body = gen_body(rng, keys, vals, kind)
        n = leaves(body)
        kinds = ['RuntimeError', 'KeyError-from-op', 'KeyboardInterrupt']
        for j in list(range(n + 1)) + ['commit']:
            exc_kind = kinds[(j if j != 'commit' else 0) % 3]
            info = {'file_writes': 0, 'file_removals': 0}
            # no expired item may exist when a block starts: what a lazy cull removes inside a block
            # cannot be observed from outside (isolation), so the reference could not follow it
            drv.step('expire')
            drv.begin_block()
            try:
                with drv.real.transact():
                    exec_body(drv, body, -1 if j == 'commit' else j, [0], exc_kind, res, info)
                    if j != 'commit' and j == n:
                        raise Boom()
                outcome = 'commit'
            except (Boom, KeyboardInterrupt):
                outcome = 'abort'
            except KeyError:
                outcome = 'abort'
            drv.end_block(outcome == 'commit')
            res.count('evaluations')
            if outcome == 'abort':
                res.count('aborts_judged')
                if info['file_removals']:
                    res.count('aborted_after_file_removal')
                if info['file_writes']:
                    res.count('aborted_after_file_write')
                res.seen('abort_cells', (kind, exc_kind, info['file_writes'] > 0, info['file_removals'] > 0, j == 0))
                drv.readout()
            else:
                res.count('commits_judged')
                drv.readout()
            if outcome == 'commit':
                break
        res.count(kind + '_blocks')
        if len(res.samples) < 2:
            res.sample({'label': label, 'body': body, 'raise_points': n + 1})
    except Ambiguous:
        res.count('ambiguous_dropped')
    except Mismatch as m:
        res.violation(m.what, dict(m.witness, label=label), signature=None)
    finally:
        drv.block = None
        drv.close()
        sc.drop(d)


# ------------------------------------------------------- Deque / Index blocks
def capture(obj, kind):
    if kind == 'deque':
        return list(obj)
    return list(obj.items())


def trial_container(dc, sc, res, rng, kind, label):
    d = sc.new()
    cache = dc.Cache(d, eviction_policy='none', disk_min_file_size=T)
    big = 'B' * (T + 11)
    try:
        if kind == 'deque':
            obj = dc.Deque.fromcache(cache, [1, big, 'x', big + '2', 5], maxlen=gen.pick(rng, [None, 6]))
            ref = collections.deque([1, big, 'x', big + '2', 5], maxlen=obj.maxlen if obj.maxlen != float('inf') else None)
            ops = ['append', 'appendleft', 'pop', 'popleft', 'setitem', 'delitem', 'rotate', 'extend', 'clear', 'reverse']
        else:
            obj = dc.Index.fromcache(cache, [('a', 1), ('b', big), ('c', 'x'), ('d', big + '2')])
            ref = collections.OrderedDict([('a', 1), ('b', big), ('c', 'x'), ('d', big + '2')])
            ops = ['setitem', 'delitem', 'pop', 'popitem', 'popitem_first', 'setdefault', 'update', 'clear', 'push', 'pull']
        body = [(gen.pick(rng, ops), gen.pick(rng, [7, big + 'n', 'y', b'Z' * (T + 1)]), gen.pick(rng, ['a', 'b', 'c', 'e']))
                for _ in range(rng.randrange(2, 6))]
        obs = observe.Observer(d)

        def apply(target, op, v, k, is_ref):
            try:
                if kind == 'deque':
                    if op == 'append':
                        target.append(v)
                    elif op == 'appendleft':
                        target.appendleft(v)
                    elif op == 'pop':
                        return target.pop()
                    elif op == 'popleft':
                        return target.popleft()
                    elif op == 'setitem':
                        target[0] = v
                    elif op == 'delitem':
                        del target[-1]
                    elif op == 'rotate':
                        target.rotate(2)
                    elif op == 'extend':
                        target.extend([v, 'e2'])
                    elif op == 'clear':
                        target.clear()
                    elif op == 'reverse':
                        target.reverse()
                else:
                    if op == 'setitem':
                        target[k] = v
                    elif op == 'delitem':
                        del target[k]
                    elif op == 'pop':
                        return target.pop(k, 'D')
                    elif op == 'popitem':
                        return target.popitem()
                    elif op == 'popitem_first':
                        return target.popitem(last=False)
                    elif op == 'setdefault':
                        return target.setdefault(k, v)
                    elif op == 'update':
                        target.update({k: v, 'z': 1})
                    elif op == 'clear':
                        target.clear()
                    elif op == 'push':
                        if not is_ref:
                            return target.push(v, prefix='q')
                        num = 500000000000000
                        qs = sorted(x for x in target if isinstance(x, str) and x.startswith('q-'))
                        if qs:
                            num = int(qs[-1][2:]) + 1
                        key = 'q-%015d' % num
                        target[key] = v
                        return key
                    elif op == 'pull':
                        if not is_ref:
                            return target.pull(prefix='q')
                        qs = sorted(x for x in target if isinstance(x, str) and x.startswith('q-'))
                        if not qs:
                            return (None, None)
                        return (qs[0], target.pop(qs[0]))
            except (IndexError, KeyError) as exc:
                return ('raised', type(exc).__name__)
            return None

        n = len(body)
        for j in list(range(n + 1)) + ['commit']:
            before = capture(obj, kind)
            rows_before = obs.snapshot()
            files_before = observe.list_files(d)[0]
            ref_copy = ref.copy()
            try:
                with obj.transact():
                    for i, (op, v, k) in enumerate(body):
                        if j != 'commit' and i == j:
                            raise Boom()
                        a = apply(obj, op, v, k, False)
                        b = apply(ref_copy, op, v, k, True)
                        if a != b:
                            res.violation('%s.%s inside a block returned %r, reference %r' % (kind, op, a, b),
                                          {'label': label, 'body': body, 'raise_at': j})
                            return
                        if obs.snapshot() != rows_before:
                            res.violation('effects of an open %s.transact() block are visible to another connection'
                                          % kind, {'label': label, 'body': body, 'raise_at': j})
                            return
                    if j != 'commit' and j == n:
                        raise Boom()
                committed = True
            except Boom:
                committed = False
            res.count('evaluations')
            if committed:
                ref = ref_copy
                res.count('commits_judged')
                if capture(obj, kind) != capture(ref, kind):
                    res.violation('%s differs from the reference after a committed block' % kind,
                                  {'label': label, 'body': body, 'got': capture(obj, kind)[:20],
                                   'expected': capture(ref, kind)[:20]})
                    return
            else:
                res.count('aborts_judged')
                res.seen('abort_cells', (kind, 'RuntimeError', tuple(op for op, _, _ in body[:j if j != 'commit' else n])))
                problems = []
                if obs.snapshot() != rows_before:
                    problems.append('table or Settings changed')
                if observe.list_files(d)[0] != files_before:
                    problems.append('value files changed: %r -> %r' % (sorted(files_before), sorted(observe.list_files(d)[0])))
                try:
                    after = capture(obj, kind)
                    if after != before:
                        problems.append('contents changed: %r -> %r' % (before[:8], after[:8]))
                except Exception as exc:       # noqa: BLE001
                    problems.append('contents unreadable after abort: %s %s' % (type(exc).__name__, exc))
                problems.extend(observe.invariant(d))
                if problems:
                    res.violation('aborted %s.transact() block left traces: %s' % (kind, problems[:3]),
                                  {'label': label, 'body': body, 'raise_at': j, 'problems': problems[:6]})
                    return
            if committed:
                break
        res.count(kind + '_blocks')
        obs.close()
    finally:
        cache.close()
        sc.drop(d)


# ------------------------------------------------------- concurrent part (b, c)
def block_schedule(dc, sc, res, rng, label):
    """Competing block writers + single-call writers + snapshot readers."""
    d = sc.new()
    clock = probe.set_clock(probe.VClock())
    shared = rng.random() < 0.5
    # a quarter of the schedules go through the sharded front end (one shard, so that a snapshot is still one SELECT):
    # its transact() opens a transaction on every shard and must behave like Cache.transact()
    sharded = rng.random() < 0.25
    data_dir = os.path.join(d, '000') if sharded else d
    if sharded:
        res.count('block_schedules_through_a_sharded_cache')

    def open_handle(**kw):
        return dc.FanoutCache(d, shards=1, **kw) if sharded else dc.Cache(d, **kw)
    setup = open_handle(timeout=0, disk_min_file_size=T)
    keys = ['k1', 'k2', 'k3']
    big = rng.random() < 0.5
    for k in keys:
        setup.set(k, stamp('init', big))
    nwriters = rng.randrange(1, 3)
    nsingle = rng.randrange(0, 2)
    nreaders = rng.randrange(1, 3)
    n = nwriters + nsingle + nreaders
    caches = LateHandles(rng, n, lambda: open_handle(timeout=0), shared=setup if shared else None, reopen=0.0)
    sch = Sched(rng, clock, strategy=rng.choice(['random', 'preempt', 'random', 'ops']),
                preempt_points={rng.randrange(0, 150) for _ in range(3)})
    if store_gates(sch, rng, dc):
        res.count('schedules_with_attribute_store_gates')
    rec = Recorder(sch)
    obs = observe.Observer(data_dir)
    snapshots = []
    commit_points = {}       # stamp -> logical time at which its writer passed pre:COMMIT (None while uncommitted)
    foreign = {'attempts': 0, 'timeouts': 0}

    def writer(ci):
        def run():
            cache = caches[ci]
            for rnd in range(rng.randrange(1, 3)):
                s = stamp('w%d-%d' % (ci, rnd), big)
                abort = rng.random() < 0.3
                subs = [{'op': 'set', 'args': (k, s), 'kw': {}} for k in keys]

                def body():
                    try:
                        with cache.transact(retry=True):
                            for k in keys:
                                cache.set(k, s)
                            if abort:
                                raise Boom()
                            commit_points[s] = sch.now()
                    except Boom:
                        return 'aborted'
                    return 'committed'
                r = rec.call(ci, 'block', ([] if abort else subs,), body)
                r['stamp'] = s
                r['aborted'] = abort
        return run

    def single(ci):
        def run():
            cache = caches[ci]
            for rnd in range(rng.randrange(1, 4)):
                k = rng.choice(keys)
                s = stamp('s%d-%d' % (ci, rnd), big)
                foreign['attempts'] += 1
                retry = rng.random() < 0.6
                r = rec.call(ci, 'set', (k, s), lambda: cache.set(k, s, retry=retry))
                if (r['kind'] == 'raise' and r['result'] == 'Timeout') or (sharded and r['kind'] == 'ok' and r['result'] is False):
                    foreign['timeouts'] += 1      # (the sharded front end reports a timeout as False)
                    r['op'] = 'noop'
        return run

    def reader(ci):
        def run():
            cache = caches[ci]
            for rnd in range(rng.randrange(2, 5)):
                if rng.random() < 0.5:
                    t0 = sch.now()
                    snap = read_snapshot(data_dir, obs, keys)
                    if snap is not None:
                        snapshots.append((t0, snap))
                    sch.gate('reader-yield')
                else:
                    k = rng.choice(keys)
                    rec.call(ci, 'get', (k, 'MISS'), lambda: cache.get(k, 'MISS', retry=True))
        return run

    fns = [writer(i) for i in range(nwriters)] + [single(nwriters + i) for i in range(nsingle)] + \
          [reader(nwriters + nsingle + i) for i in range(nreaders)]
    try:
        done = sch.run(fns)
        extra = {'label': label, 'shared_object': shared, 'trace_hash': sch.trace_hash()}
        errs = sch.errors()
        if errs:
            res.violation('client died in a block schedule: %s' % errs[0][1][1][-500:], extra)
            return
        if not done:
            res.count('schedules_hit_step_cap')
            return
        res.count('block_schedules_run')
        res.count('evaluations')
        res.count('foreign_thread_attempts', foreign['attempts'] if shared else 0)
        res.count('foreign_thread_timeouts', foreign['timeouts'])
        if sch.preemptions_in_op:
            res.seen('block_schedules', sch.trace_hash())
        probe.set_controller(None)
        # composite-operation linearizability
        ops = []
        for o in rec.ops:
            if o['op'] == 'noop':
                continue
            if o['kind'] == 'raise':
                res.violation('%s raised %s (%s) in a block schedule' % (o['op'], o['result'], o.get('exc')), extra)
                return
            if o['op'] == 'block':
                o = dict(o, result=tuple(('ok', True) for _ in o['args'][0]))
            ops.append(o)
        fresh = open_handle()
        t = sch.tick + 5
        for k in keys:
            ops.append({'client': 99, 'op': 'get', 'args': (k, 'MISS'), 'kw': {}, 'call': t, 'ret': t + 1, 'kind': 'ok',
                        'result': fresh.get(k, 'MISS')})
            t += 2
        fresh.close()
        init = tuple(sorted(((k, stamp('init', big)) for k in keys), key=repr))
        # No miss is tolerated here: every key of this schedule exists before, during and after every block, and a
        # lookup that overlaps a block must see the state before or after it (the lock-free path re-selects when a
        # value file was replaced), never "neither".
        try:
            ok, info = lin.check(ops, init, lin.kv_step, timeout=10)
        except lin.Timeout:
            res.count('linearizability_search_timeouts')
            ok = True
        if not ok:
            res.violation('blocks are not atomic: history with blocks as composite operations is not linearizable',
                          dict(extra, checker=info, history=[
                              {x: (o[x] if x != 'args' or o['op'] != 'block' else [s['args'] for s in o['args'][0]])
                               for x in ('client', 'op', 'args', 'call', 'ret', 'result')} for o in ops]))
            return
        # snapshots: every key shows one stamp, unless a single-call writer interleaved legitimately
        single_stamps = {o['args'][1] for o in rec.ops if o['op'] in ('set', 'noop')}
        for t0, snap in snapshots:
            res.count('snapshot_reads')
            block_stamps = {v for v in snap.values() if v not in single_stamps}
            if len(block_stamps) > 1:
                res.violation('a snapshot read saw a block half-applied: %r' % (snap,), extra)
                return
            for v in block_stamps:
                if v == stamp('init', big):
                    continue
                cp = commit_points.get(v)
                if cp is None or cp > t0:
                    res.violation('a snapshot read saw the stamp of a block before it reached COMMIT (or of an '
                                  'aborted block): %r' % (v,), extra)
                    return
        # dirty reads through the API: a get that returned before the writer reached COMMIT must not show its stamp
        for o in rec.ops:
            if o['op'] == 'get' and o['kind'] == 'ok' and str(o['result']).startswith('w'):
                cp = commit_points.get(o['result'])
                if cp is None or o['ret'] < cp:
                    res.violation('dirty read: get returned %r before its block committed (or it aborted)' % (o['result'],),
                                  extra)
                    return
    finally:
        probe.set_controller(None)
        obs.close()
        for c in set(caches.all()) | {setup}:
            try:
                c.close()
            except Exception:      # noqa: BLE001
                pass
        sc.drop(d)


# ------------------- one shared Cache object: a block beside another thread, statement-level change points enumerated
def block_plans(dc, sc, res, rng, label, other, abort, big, part, budget=10**9, gates=True):
    """Thread A runs one transact() block (two writes; committed or left by an exception), thread B makes one call or
    runs a block of its own, both through ONE Cache object.  Gates: SQL statements, file operations and the statements
    of the library that store an attribute (the owner thread id and the file lists of the open transaction live in
    attributes of the shared object).  The running thread keeps running; control changes hands only at planned
    statement gates; every plan with at most two change points is run.  Judged as any block schedule: blocks are
    composite operations of a linearizable history, nothing of an aborted block is visible, rows / counters / files agree."""
    from ..sched import code_objects
    codes = code_objects(dc.Cache)
    d = sc.new()
    keys = ['k1', 'k2']
    seen = set()
    init_v = stamp('init', big)
    try:
        cache = dc.Cache(d, disk_min_file_size=T, timeout=0)

        def run(plan, start):
            cache.clear()
            for k in keys:
                cache.set(k, init_v)
            clock = probe.set_clock(probe.VClock())
            sch = Sched(rng, clock, strategy='plan', max_steps=30000, line_codes=codes, only_stores=gates)
            sch.plan, sch.start = plan, start
            rec = Recorder(sch)
            sa, sb = stamp('A', big), stamp('B', big)

            def block(ci, s, aborts):
                def body():
                    try:
                        with cache.transact(retry=True):
                            for k in keys:
                                cache.set(k, s)
                            if aborts:
                                raise Boom()
                    except Boom:
                        return 'aborted'
                    return 'committed'
                subs = [] if aborts else [{'op': 'set', 'args': (k, s), 'kw': {}} for k in keys]
                return lambda: rec.call(ci, 'block', (subs,), body)

            def call_b():
                if other == 'block':
                    return block(1, sb, False)()
                if other == 'set':
                    return rec.call(1, 'set', ('k1', sb), lambda: cache.set('k1', sb, retry=True))
                if other == 'get':
                    return rec.call(1, 'get', ('k2', 'MISS'), lambda: cache.get('k2', 'MISS', retry=True))
                if other == 'pop':
                    return rec.call(1, 'pop', ('k1', 'MISS'), lambda: cache.pop('k1', 'MISS', retry=True))
                return rec.call(1, 'delitem', ('never-stored',), lambda: cache.__delitem__('never-stored'))
            completed = sch.run([block(0, sa, abort), call_b])
            probe.set_controller(None)
            extra = {'label': label, 'shared_object': True, 'other_thread': other, 'block_aborts': abort,
                     'change_points': sorted(plan.items()), 'first_client': start, 'trace_hash': sch.trace_hash()}
            errs = sch.errors()
            if errs:
                res.violation('client died in a block schedule: %s' % errs[0][1][1][-500:], extra)
                return None
            if not completed:
                res.count('schedules_hit_step_cap')
                return sch.line_count
            h = sch.trace_hash()
            if h in seen:
                return sch.line_count
            seen.add(h)
            res.seen('block_plan_schedules', h)
            res.count('block_plan_schedules_judged')
            res.count('evaluations')
            ops = []
            for o in rec.ops:
                if o['kind'] == 'raise' and not (o['op'] == 'delitem' and o['result'] == 'KeyError'):
                    res.violation('%s raised %s (%s) beside a block on a shared object' % (o['op'], o['result'], o.get('exc')), extra)
                    return None
                if o['op'] == 'block':
                    o = dict(o, result=tuple(('ok', True) for _ in o['args'][0]))
                ops.append(o)
            fresh = dc.Cache(d)
            t = sch.tick + 5
            for k in keys:
                ops.append({'client': 99, 'op': 'get', 'args': (k, 'MISS'), 'kw': {}, 'call': t, 'ret': t + 1, 'kind': 'ok',
                            'result': fresh.get(k, 'MISS')})
                t += 2
            fresh.close()
            init = tuple(sorted(((k, init_v) for k in keys), key=repr))
            try:
                ok, info = lin.check(ops, init, lin.kv_step, timeout=10)
            except lin.Timeout:
                ok = True
            if not ok:
                res.violation('blocks are not atomic: history with blocks as composite operations is not linearizable',
                              dict(extra, checker=info, history=[
                                  {x: (o[x] if x != 'args' or o['op'] != 'block' else [q['args'] for q in o['args'][0]])
                                   for x in ('client', 'op', 'args', 'call', 'ret', 'result')} for o in ops]))
                return None
            problems = observe.invariant(d)
            if problems:
                res.violation('after a block beside another thread on a shared object: %r' % (problems[:3],), extra)
                return None
            return sch.line_count

        plans = []
        for start in (0, 1):
            n = run({}, start)
            if n is None:
                return
            o = 1 - start
            plans += [({a: o}, start) for a in range(1, n + 3)]
            plans += [({a: o, b: start}, start) for a in range(1, n + 3) for b in range(a + 1, n + 6)]
        plans = plans[part[0]::part[1]]
        if len(plans) > budget:
            plans = rng.sample(plans, budget)
            res.count('block_plan_programs_sampled')
        else:
            res.count('block_plan_programs_exhausted_to_bound_2')
        for plan, start in plans:
            if run(plan, start) is None:
                return
        res.count('block_plan_programs')
    finally:
        probe.set_controller(None)
        try:
            cache.close()
        except Exception:      # noqa: BLE001
            pass
        sc.drop(d)


def stamp(tag, big):
    s = '%s;' % tag
    return s * (T // len(s) + 2) if big else s


def read_snapshot(d, obs, keys):
    """One SELECT (= one consistent snapshot) through the independent
    connection; file-backed values are then read from disk, and the snapshot
    is discarded if a file has meanwhile been cleaned up."""
    import os
    con = obs._connect()
    rows = con.execute('SELECT key, filename, value FROM Cache WHERE raw = 1 AND key IN (%s)' % ','.join('?' * len(keys)),
                       tuple(keys)).fetchall()
    snap = {}
    for key, filename, value in rows:
        if filename is None:
            snap[key] = value
            continue
        try:
            with open(os.path.join(d, filename), 'r', encoding='utf-8', newline='') as f:
                snap[key] = f.read()
        except OSError:
            return None
    return snap


def block_commit_waiting(dc, sc, res, rng, label):
    """The COMMIT of a block has to wait: the directory uses a rollback journal and another connection is inside a read
    transaction when the block ends, until the second or third attempt to commit has failed.  Blocks that retry
    (Index, Deque, FanoutCache, Cache.transact(retry=True)) then commit completely; Cache.transact() without retry raises
    Timeout and leaves everything as it was."""
    from . import c14
    kind = rng.choice(['cache-retry', 'cache-noretry', 'index', 'deque', 'fanout'])
    journal = rng.choice(['delete', 'truncate', 'persist'])
    d = sc.new()
    big = lambda t: (t + ';') * 40      # noqa: E731
    if kind == 'fanout':
        obj = dc.FanoutCache(d, shards=1, timeout=0, disk_min_file_size=T, sqlite_journal_mode=journal)
        base, db_dir = obj, os.path.join(d, '000')
    else:
        base = dc.Cache(d, timeout=0, disk_min_file_size=T, sqlite_journal_mode=journal, eviction_policy='none')
        obj = dc.Index.fromcache(base) if kind == 'index' else dc.Deque.fromcache(base) if kind == 'deque' else base
        db_dir = d
    if kind == 'deque':
        obj.extend([big('old0'), 'old1'])
    else:
        obj['old'] = big('old')
        obj['keep'] = 'k'
    reader = c14.Reader(db_dir)
    ctrl = c14.ReaderFault(reader, rng.randrange(2, 4))
    wit = {'label': label, 'kind': kind, 'journal_mode': journal, 'reader_leaves_after_failed_commits': ctrl.k}
    try:
        def content():
            fresh = dc.Cache(db_dir)
            try:
                return sorted((repr(k), repr(fresh.get(k))) for k in fresh)
            finally:
                fresh.close()
        before = content()
        reader.take()
        probe.set_controller(ctrl)
        block = obj.transact(retry=True) if kind == 'cache-retry' else obj.transact()
        try:
            with block:
                if kind == 'deque':
                    obj.append(big('new'))
                    obj.popleft()
                else:
                    obj['old'] = big('replaced')
                    obj['new'] = big('new')
                    del obj['keep']
            got = ('ok', None)
        except dc.Timeout:
            got = ('Timeout', None)
        except Exception as exc:      # noqa: BLE001
            got = ('raise', '%s: %s' % (type(exc).__name__, exc))
        probe.set_controller(None)
        still = reader.held
        reader.release()
        res.count('evaluations')
        res.count('blocks_whose_commit_had_to_wait')
        res.seen('cells', ('commit-waiting', kind, journal, got[0]))
        if not ctrl.failed:
            res.count('blocks_whose_commit_did_not_conflict')
            return
        after = content()
        if kind == 'cache-noretry':
            if got[0] != 'Timeout' or after != before:
                res.violation('Cache.transact() whose COMMIT could not get its lock: expected Timeout and no change, got %r, '
                              'changed: %s' % (got, after != before), wit)
                return
        else:
            if kind == 'deque':
                want = sorted([(repr(k), repr(v)) for k, v in []])       # keys are queue numbers: compare values only
                vals_before = [v for _, v in before]
                vals_after = sorted(v for _, v in after)
                ok = vals_after == sorted([repr('old1'), repr(big('new'))])
            else:
                ok = after == sorted([(repr('old'), repr(big('replaced'))), (repr('new'), repr(big('new')))])
            if got[0] != 'ok' or still or not ok:
                res.violation('a retrying block whose COMMIT had to wait for a reader: expected to wait and commit everything, '
                              'got %r (reader still active: %s), contents %r' % (got, still, [a[:2] for a in after][:4]), wit)
                return
        problems = observe.invariant(db_dir)
        if problems:
            res.violation('after a block whose COMMIT had to wait: %r' % problems[:3], wit)
    finally:
        probe.set_controller(None)
        reader.close()
        try:
            base.close()
        except Exception:      # noqa: BLE001
            pass
        sc.drop(d)


def failing_calls_in_blocks(dc, sc, res, rng, kind, label):
    """A call that FAILS inside a block, with the body catching the error and going on: the failed call must have no
    effect at all (also on the value files of the rows it did not change), whether the block then commits or is
    abandoned (seeded/C06-11: the superseded file queued for removal before the row update that fails)."""
    import warnings
    d = sc.new()
    cache = dc.Cache(d, disk_min_file_size=T) if kind == 'cache' else dc.FanoutCache(d, shards=2, disk_min_file_size=T)
    keys = ['a', 'b', 'c', 'd', 'e']
    model = {}
    serial = [0]

    def val():
        serial[0] += 1
        big = rng.random() < 0.7
        tag = 'v%d;' % serial[0]
        return tag * ((T // len(tag)) + 2) if big else tag

    try:
        for k in keys:
            if rng.random() < 0.8:
                model[k] = val()
                cache.set(k, model[k])
        for blk in range(6):
            commit = rng.random() < 0.6
            pending = dict(model)
            try:
                with cache.transact():
                    for _ in range(rng.randrange(1, 5)):
                        k = rng.choice(keys)
                        r = rng.random()
                        if r < 0.3:
                            pending[k] = val()
                            cache.set(k, pending[k])
                        elif r < 0.4:
                            pending.pop(k, None)
                            cache.delete(k)
                        else:
                            how = rng.choice(['set with a tag that cannot be bound', 'add with a tag that cannot be bound',
                                              'incr of a text value', 'pop of a missing key', 'touch with a bad expire'])
                            try:
                                if how.startswith('set'):
                                    cache.set(k, val(), tag=object())
                                elif how.startswith('add'):
                                    cache.add(k, val(), tag=object())
                                elif how.startswith('incr'):
                                    if k not in pending:
                                        continue
                                    cache.incr(k)
                                elif how.startswith('pop'):
                                    cache.pop('missing-%d' % blk, default=None, tag=object(), expire_time=True)
                                    continue
                                else:
                                    cache.touch(k, expire='never')
                            except Exception:                   # the body catches whatever the call raised
                                res.count('calls_failing_inside_blocks')
                                res.seen('abort_cells', (kind, 'failing call caught by the body', how, k in pending, commit))
                            else:
                                if how.startswith('add') and k in pending:
                                    pass                        # add over a present key returns False before binding
                                elif how.startswith(('set', 'add')):
                                    raise AssertionError('harness: %s did not fail' % how)
                    if not commit:
                        raise Boom()
                model = pending
            except Boom:
                pass
            res.count('evaluations')
            res.count('blocks_with_failing_calls_' + ('committed' if commit else 'abandoned'))
            got = {k: cache.get(k, '<MISSING>') for k in keys}
            want = {k: model.get(k, '<MISSING>') for k in keys}
            with warnings.catch_warnings(record=True) as caught:
                warnings.simplefilter('always')
                cache.check()
            damage = [str(w.message)[:120] for w in caught if 'empty directory' not in str(w.message).lower()]
            if got != want or damage:
                bad = sorted(k for k in keys if got[k] != want[k])
                res.violation('after a block in which calls failed and were caught by the body (%s cache, block %s): keys %r '
                              'read %r, expected %r; check() reports %r' % (
                                  kind, 'committed' if commit else 'abandoned', bad, [str(got[k])[:24] for k in bad],
                                  [str(want[k])[:24] for k in bad], damage[:3]), {'label': label}, signature=None)
                return
    finally:
        cache.close()
        sc.drop(d)


def run_shard(tier, seed, shard, nshards, res):
    dc = common.use_repo()
    probe.install()
    n = 14 if tier == 'quick' else 150
    with common.Scratch() as sc:
        for i in range(n):
            rng = common.rng_for(seed, 'c06', shard, i)
            kind = ['cache', 'cache', 'fanout', 'deque', 'index', 'cache', 'fanout'][i % 7]
            label = 'c06 seed=%d shard=%d i=%d kind=%s' % (seed, shard, i, kind)
            if kind in ('cache', 'fanout'):
                trial_cache(dc, sc, res, rng, kind, label)
            else:
                trial_container(dc, sc, res, rng, kind, label)
            if res.new_violations() > 8:
                return
        for i in range(10 if tier == 'quick' else 100):
            rng = common.rng_for(seed, 'c06f', shard, i)
            failing_calls_in_blocks(dc, sc, res, rng, ['cache', 'fanout'][i % 2],
                                    'c06 failing calls seed=%d shard=%d i=%d' % (seed, shard, i))
        for i in range(6 if tier == 'quick' else 60):
            rng = common.rng_for(seed, 'c06w', shard, i)
            block_commit_waiting(dc, sc, res, rng, 'c06 commit waiting seed=%d shard=%d i=%d' % (seed, shard, i))
        # a block beside another thread on one shared object, all plans to the bound: 20 programs (what the other thread
        # does x block commits or aborts x values in files or not); a quick run does a sixth of the plans of the
        # program that is this worker's turn (eight programs per run); the thorough tier also switches at function entries, the thorough tier two programs per worker (one at the store gates, one with function entries as further change
        # points; at most 2 500 plans each)
        programs = [(o, a, b) for o in ('set', 'get', 'block', 'pop', 'delitem') for a in (False, True) for b in (False, True)]
        if tier == 'quick':
            o, a, b = programs[(seed * 16 + shard) // 2 % len(programs)]
            block_plans(dc, sc, res, common.rng_for(seed, 'c06p', shard), 'c06 plans seed=%d shard=%d' % (seed, shard),
                        o, a, b, (((seed * 16 + shard) % 2) * 3 + seed % 3, 6))
        else:
            for j in range(2):
                o, a, b = programs[(seed * 7 + shard * 2 + j) % len(programs)]
                block_plans(dc, sc, res, common.rng_for(seed, 'c06p', shard, j),
                            'c06 plans seed=%d shard=%d j=%d' % (seed, shard, j), o, a, b, (0, 1), budget=2500,
                            gates='with entries' if j else True)
        probe.reset()
        m = 40 if tier == 'quick' else 500
        for i in range(m):
            rng = common.rng_for(seed, 'c06s', shard, i)
            block_schedule(dc, sc, res, rng, 'c06 sched seed=%d shard=%d i=%d' % (seed, shard, i))
            if res.new_violations() > 8:
                return
