"""C12 - Index is a persistent insertion-ordered dictionary."""

import collections
import json
import os
import pickle
import subprocess
import threading
import time

from .. import common, gen, lin, probe
from ..observe import ident, same
from ..sched import Recorder, Sched, store_gates

PROP = 'C12'
LEVEL = 'exploration'
RULE = ('histories of Index calls (assignment, lookup, get, deletion, pop, popitem from either end, setdefault, update '
        'with mapping/pairs/kwargs, keys/values/items views incl. len/in/set algebra, == and != against Index, '
        'OrderedDict and dict, iteration both ways, clear, push/pull) over native and composite keys (incl. the 1/1.0 '
        'alias) and inline/file-backed values, stepped in lock-step with collections.OrderedDict; reopen / pickle / '
        'FanoutCache.index / DjangoCache.index / size_limit squeeze / clock jump events. concurrent: (i) continuous '
        'presence - writers only replace k (inline and file-backed), readers use index[k], in, get, setdefault and must '
        'never miss; (ii) linearizability of setitem/getitem/pop/popitem/setdefault/delitem/len against OrderedDict; '
        'under the schedule fuzzer and free-running threads/processes. evaluations = calls judged + schedules + free '
        'runs; distinct_nontrivial = distinct (operation, outcome class, key class) cells + distinct schedules with a '
        'preemption inside an operation')
DISTINCT = ('cells', 'schedules')
REQUIRED = ('schedules_on_a_flat_disk_layout', 'long_indexes', 'histories_with_a_key_and_its_stored_form_as_bytes', 'calls_judged', 'file_backed_values', 'reopen_events', 'pickle_events', 'fanout_indexes', 'django_indexes',
            'presence_schedules', 'presence_lookups', 'atomicity_schedules', 'free_runs', 'exceptions_matched',
            'lookups_overlapping_replacement', 'replacements_run_in_front_of_a_file_open',
            'updates_from_failing_iterables', 'blocks_left_by_KeyboardInterrupt', 'blocks_left_by_GeneratorExit',
            'blocks_left_by_commit', 'indexes_opened_inside_schedules')
ASSUMPTIONS = ('bool and NaN keys are not generated (OrderedDict unifies True with 1, the cache by design does not)',)

T = 64
KEYS = ['a', 'b', 'c', '', 1, 1.0, -2, 0, -0.0, 2**70, (1, 'x'), ('a', None), b'k', 'k', None, 2.5, 10**15 + 1]
# a composite key and the bytes key that equals its stored (pickled) form are different keys of the mapping
import pickle as _pickle
import pickletools as _pickletools
TWINS = {k: _pickletools.optimize(_pickle.dumps(k, protocol=_pickle.HIGHEST_PROTOCOL)) for k in ((1, 'x'), None)}
KEYS += list(TWINS.values())


def plan(tier):
    return {'nshards': 16 if tier == 'quick' else 48, 'timeout': 900 if tier == 'quick' else 3600}


def outcome(fn):
    try:
        return ('ok', fn())
    except Exception as exc:       # noqa: BLE001
        return ('raise', type(exc).__name__)


def make_index(dc, sc, rng, how, res):
    d = sc.new()
    if how == 'directory':
        dc.Cache(d, disk_min_file_size=T, eviction_policy='none').close()
        return dc.Index(d), d, None
    if how == 'fanout':
        fc = dc.FanoutCache(d, shards=2, disk_min_file_size=T)
        res.count('fanout_indexes')
        return fc.index('ix/y'), d, fc
    from diskcache import DjangoCache
    dj = DjangoCache(d, {'SHARDS': 2, 'OPTIONS': {'disk_min_file_size': T}})
    res.count('django_indexes')
    return dj.index('ix'), d, dj


def key_class(k):
    return type(k).__name__


def history(dc, sc, res, rng, label):
    how = gen.pick(rng, ['directory', 'directory', 'directory', 'fanout', 'django'])
    clock = probe.set_clock(probe.VClock())
    I, d, owner = make_index(dc, sc, rng, how, res)
    R = collections.OrderedDict()
    hist = []
    n = [0]
    extra = []
    keys = rng.sample(KEYS, rng.randrange(4, 10))
    for k, twin in TWINS.items():
        if (k in keys) != (twin in keys) and rng.random() < 0.6:
            keys += [k if twin in keys else twin]
    if any(k in keys and t in keys for k, t in TWINS.items()):
        res.count('histories_with_a_key_and_its_stored_form_as_bytes')

    def val():
        n[0] += 1
        r = rng.random()
        if r < 0.3:
            res.count('file_backed_values')
            return 'v%d;' % n[0] * 40
        if r < 0.5:
            return rng.randrange(3)
        if r < 0.62:
            return None
        return ('t', n[0])

    def fail(what, **kw):
        res.violation(what, dict(kw, label=label, how=how, history_tail=hist[-25:]))

    def pushkey(R, prefix):
        qs = sorted(x for x in R if isinstance(x, str) and x.startswith(prefix + '-') and len(x) == len(prefix) + 16)
        return qs

    try:
        for step in range(rng.randrange(50, 220)):
            k = gen.pick(rng, keys)
            op = gen.pick(rng, ['setitem', 'setitem', 'setitem', 'getitem', 'getitem', 'get', 'delitem', 'pop', 'pop_default',
                                'popitem', 'popitem_first', 'setdefault', 'update_map', 'update_pairs', 'update_kw',
                                'keys', 'values', 'items', 'eq', 'contains', 'len', 'clear', 'push', 'pull', 'EVENT',
                                'peekitem', 'block'])
            args = (k,)
            if op == 'block':
                # a transact() block with a few assignments / removals that completes, or is left by an exception - an
                # ordinary one, KeyboardInterrupt, SystemExit, or GeneratorExit thrown into a generator suspended inside
                # the block; a block that is left by an exception changes nothing
                how = gen.pick(rng, ['commit', 'RuntimeError', 'KeyboardInterrupt', 'SystemExit', 'GeneratorExit'])
                muts = [(gen.pick(rng, ['set', 'set', 'del', 'pop', 'popitem', 'popfirst']), gen.pick(rng, keys), val())
                        for _ in range(rng.randrange(1, 5))]
                args = (how, muts)
                saved = collections.OrderedDict(R)

                def body(M):
                    for what, kk, vv in muts:
                        if what == 'set':
                            M[kk] = vv
                        elif what == 'pop':
                            M.pop(kk, None)
                        elif what in ('popitem', 'popfirst'):
                            if len(M):
                                M.popitem(last=what == 'popitem')
                        elif kk in M:
                            del M[kk]

                def scan():
                    with I.transact():
                        body(I)
                        yield 'suspended inside the block'
                exc_types = {'RuntimeError': RuntimeError, 'KeyboardInterrupt': KeyboardInterrupt, 'SystemExit': SystemExit}
                try:
                    if how == 'GeneratorExit':
                        g = scan()
                        next(g)
                        g.close()
                    else:
                        with I.transact():
                            body(I)
                            if how != 'commit':
                                raise exc_types[how]()
                except (RuntimeError, KeyboardInterrupt, SystemExit):
                    pass
                if how == 'commit':
                    body(R)
                else:
                    R.clear()
                    R.update(saved)
                res.count('blocks_left_by_' + how)
                got = exp = ('ok', None)
            elif op == 'setitem':
                v = val()
                args = (k, v)
                got, exp = outcome(lambda: I.__setitem__(k, v)), outcome(lambda: R.__setitem__(k, v))
            elif op == 'getitem':
                got, exp = outcome(lambda: I[k]), outcome(lambda: R[k])
            elif op == 'get':
                got, exp = outcome(lambda: I.get(k, 'D')), outcome(lambda: R.get(k, 'D'))
            elif op == 'delitem':
                got, exp = outcome(lambda: I.__delitem__(k)), outcome(lambda: R.__delitem__(k))
            elif op == 'pop':
                got, exp = outcome(lambda: I.pop(k)), outcome(lambda: R.pop(k))
            elif op == 'pop_default':
                got, exp = outcome(lambda: I.pop(k, 'D')), outcome(lambda: R.pop(k, 'D'))
            elif op == 'popitem':
                args = ()
                got, exp = outcome(lambda: I.popitem()), outcome(lambda: R.popitem())
            elif op == 'popitem_first':
                args = ()
                got, exp = outcome(lambda: I.popitem(last=False)), outcome(lambda: R.popitem(last=False))
            elif op == 'peekitem':
                args = ()
                last = rng.random() < 0.5
                got = outcome(lambda: I.peekitem(last=last))
                exp = outcome(lambda: (list(R.items())[-1 if last else 0]) if R else R.popitem())
            elif op == 'setdefault':
                v = val()
                args = (k, v)
                got, exp = outcome(lambda: I.setdefault(k, v)), outcome(lambda: R.setdefault(k, v))
            elif op == 'update_map':
                m = {gen.pick(rng, keys): val() for _ in range(rng.randrange(0, 3))}
                args = (m,)
                got, exp = outcome(lambda: I.update(m)), outcome(lambda: R.update(m))
            elif op == 'update_pairs':
                m = [(gen.pick(rng, keys), val()) for _ in range(rng.randrange(0, 4))]
                args = (m,)
                if rng.random() < 0.3:
                    # the iterable of pairs fails part-way: the pairs consumed so far stay, the exception passes on
                    stop = rng.randrange(0, len(m) + 1)
                    args = (m, 'iterable raises after %d pair(s)' % stop)

                    def pairs():
                        for j, kv in enumerate(m):
                            if j == stop:
                                raise ValueError('iterable failed')
                            yield kv
                        raise ValueError('iterable failed')
                    res.count('updates_from_failing_iterables')
                    got, exp = outcome(lambda: I.update(pairs())), outcome(lambda: R.update(pairs()))
                else:
                    got, exp = outcome(lambda: I.update(m)), outcome(lambda: R.update(m))
            elif op == 'update_kw':
                m = {gen.pick(rng, ['a', 'b', 'kw']): val()}
                args = (m,)
                got, exp = outcome(lambda: I.update(**m)), outcome(lambda: R.update(**m))
            elif op == 'keys':
                args = ()
                probe_keys = {gen.pick(rng, keys), 'zz'}
                got = outcome(lambda: (list(I.keys()), len(I.keys()), k in I.keys(), sorted(repr(ident(x)) for x in I.keys() & probe_keys)))
                exp = outcome(lambda: (list(R.keys()), len(R.keys()), k in R.keys(), sorted(repr(ident(x)) for x in R.keys() & probe_keys)))
            elif op == 'values':
                args = ()
                got = outcome(lambda: (list(I.values()), len(I.values())))
                exp = outcome(lambda: (list(R.values()), len(R.values())))
            elif op == 'items':
                args = ()
                got = outcome(lambda: (list(I.items()), len(I.items()), list(reversed(I))))
                exp = outcome(lambda: (list(R.items()), len(R.items()), list(reversed(R))))
            elif op == 'eq':
                kind = gen.pick(rng, ['od_same', 'od_reordered', 'dict_reordered', 'od_changed', 'dict_changed', 'shorter',
                                      'dict_other_key', 'od_other_key', 'dict_other_key', 'dict_same'])
                items = list(R.items())
                if kind.endswith('other_key') and items:
                    # same length, one key replaced by a key the Index does not hold (value kept, or None)
                    j = rng.randrange(len(items))
                    items[j] = ('no-such-key-%d' % step, items[j][1] if rng.random() < 0.5 else None)
                if kind in ('od_reordered', 'dict_reordered'):
                    items = items[1:] + items[:1]
                if kind in ('od_changed', 'dict_changed') and items:
                    items[0] = (items[0][0], 'CHANGED')
                if kind == 'shorter':
                    items = items[:-1]
                other = dict(items) if kind.startswith('dict') else collections.OrderedDict(items)
                args = (kind,)
                got = outcome(lambda: (I == other, I != other))
                exp = outcome(lambda: (R == other, R != other))
            elif op == 'contains':
                got, exp = outcome(lambda: k in I), outcome(lambda: k in R)
            elif op == 'len':
                args = ()
                got, exp = outcome(lambda: len(I)), outcome(lambda: len(R))
            elif op == 'clear':
                if rng.random() < 0.7:
                    continue
                args = ()
                got, exp = outcome(I.clear), outcome(R.clear)
            elif op == 'push':
                v = val()
                args = (v,)
                got = outcome(lambda: I.push(v, prefix='q'))
                qs = pushkey(R, 'q')
                num = int(qs[-1][2:]) + 1 if qs else 500000000000000
                key = 'q-%015d' % num
                R[key] = v
                exp = ('ok', key)
            elif op == 'pull':
                args = ()
                got = outcome(lambda: I.pull(prefix='q'))
                qs = pushkey(R, 'q')
                exp = ('ok', (qs[0], R.pop(qs[0]))) if qs else ('ok', (None, None))
            else:
                ev = gen.pick(rng, ['reopen', 'pickle', 'squeeze', 'clockjump', 'reopen_args'])
                hist.append(('EVENT', ev))
                if ev == 'reopen' and how == 'directory':
                    I.cache.close()
                    I = dc.Index(d)
                    res.count('reopen_events')
                elif ev == 'reopen_args' and how == 'directory':
                    # Index(directory, mapping-or-pairs, **kwargs) updates what is already stored
                    pairs = [(gen.pick(rng, keys), val()) for _ in range(rng.randrange(0, 3))]
                    kwargs = {'kw': val()} if rng.random() < 0.5 else {}
                    I.cache.close()
                    I = dc.Index(d, pairs if rng.random() < 0.5 else dict(pairs), **kwargs)
                    R.update(pairs if True else None, **kwargs)
                    res.count('reopen_events')
                    if not same(list(I.items()), list(R.items())):
                        return fail('Index(directory, items, **kwargs) on an existing directory holds %r, expected %r' % (
                            list(I.items())[:6], list(R.items())[:6]))
                elif ev == 'pickle':
                    I2 = pickle.loads(pickle.dumps(I))
                    extra.append(I2)
                    res.count('pickle_events')
                    if not same(list(I2.items()), list(R.items())):
                        return fail('unpickled Index differs: %r' % (list(I2.items())[:6],))
                    if rng.random() < 0.5:
                        I = I2
                elif ev == 'squeeze':
                    I.cache.reset('size_limit', 1024)
                elif ev == 'clockjump':
                    clock.advance(3.2e8)
                continue
            hist.append((op, args, got))
            res.count('calls_judged')
            res.count('evaluations')
            oc = got[1] if got[0] == 'raise' else type(got[1]).__name__
            res.seen('cells', (op, oc, key_class(k)))
            if exp[0] == 'raise':
                res.count('exceptions_matched')
            if got[0] != exp[0] or (got[0] == 'raise' and got[1] != exp[1]) or (got[0] == 'ok' and not same(got[1], exp[1])):
                return fail('Index.%s%r -> %r, OrderedDict -> %r' % (op, args, got, exp))
            items = list(I.items())
            if not same(items, list(R.items())) or len(I) != len(R):
                return fail('after %s%r the Index holds %r, OrderedDict holds %r' % (op, args, items[:8], list(R.items())[:8]))
        if len(res.samples) < 2:
            res.sample({'label': label, 'how': how, 'keys': keys, 'history_head': hist[:12]})
    finally:
        for x in extra:
            try:
                x.cache.close()
            except Exception:      # noqa: BLE001
                pass
        try:
            I.cache.close()
        except Exception:          # noqa: BLE001
            pass
        if owner is not None:
            owner.close()
        sc.drop(d)


# ------------------------------------------------------ (i) continuous presence
def presence_schedule(dc, sc, res, rng, label, classify):
    d = sc.new()
    clock = probe.set_clock(probe.VClock())
    shared = rng.random() < 0.5
    base = dc.Cache(d, timeout=0, disk_min_file_size=T, eviction_policy='none')
    base['k'] = 'init;' * 30
    base['j'] = 'small'
    nw, nr = rng.randrange(1, 3), rng.randrange(1, 3)
    n = nw + nr
    base_ix = dc.Index.fromcache(base)
    objs = [base_ix if shared else dc.Index.fromcache(dc.Cache(d, timeout=0)) for _ in range(n)]
    # 'chase': an adversarial schedule - each time a reader is about to open a value file, a writer first completes a
    # whole replacement of some key, so that one lookup can meet several replacements in a row
    strategy = rng.choice(['random', 'preempt', 'random', 'chase', 'chase'])
    sch = Sched(rng, clock, strategy=strategy, preempt_points={rng.randrange(0, 150) for _ in range(4)},
                victims=range(nw, n))
    rec = Recorder(sch)
    chase = strategy == 'chase'

    def writer(ci):
        def run():
            for i in range(rng.randrange(3, 7) if chase else rng.randrange(1, 4)):
                k = rng.choice(['k', 'k', 'k', 'j'] if chase else ['k', 'k', 'j'])
                v = ('w%d-%d;' % (ci, i)) * (30 if chase or rng.random() < 0.6 else 1)
                rec.call(ci, 'setitem', (k, v), lambda: objs[ci].__setitem__(k, v))
        return run

    def reader(ci):
        def run():
            for i in range(rng.randrange(2, 5)):
                k = rng.choice(['k', 'k', 'j'])
                how = rng.choice(['getitem', 'contains', 'get', 'setdefault'])
                if how == 'getitem':
                    rec.call(ci, how, (k,), lambda: objs[ci][k])
                elif how == 'contains':
                    rec.call(ci, how, (k,), lambda: k in objs[ci])
                elif how == 'get':
                    rec.call(ci, how, (k, 'MISS'), lambda: objs[ci].get(k, 'MISS'))
                else:
                    rec.call(ci, how, (k, 'DEFAULT'), lambda: objs[ci].setdefault(k, 'DEFAULT'))
        return run
    try:
        ok = sch.run([writer(i) for i in range(nw)] + [reader(nw + i) for i in range(nr)])
        probe.set_controller(None)
        extra = {'label': label, 'shared_object': shared, 'trace_hash': sch.trace_hash()}
        errs = sch.errors()
        if errs:
            res.violation('client died: %s' % errs[0][1][1][-400:], extra)
            return
        if not ok:
            res.count('schedules_hit_step_cap')
            return
        res.count('presence_schedules')
        res.count('replacements_run_in_front_of_a_file_open', sch.chases)
        res.count('evaluations')
        if sch.preemptions_in_op:
            res.seen('schedules', sch.trace_hash())
        writes = [o for o in rec.ops if o['op'] == 'setitem']
        for o in rec.ops:
            if o['op'] == 'setitem':
                if o['kind'] != 'ok':
                    res.violation('replacement raised %s' % o['result'], extra)
                    return
                continue
            res.count('presence_lookups')
            overl = any(w['args'][0] == o['args'][0] and w['call'] < o['ret'] and o['call'] < w['ret'] for w in writes)
            if overl:
                res.count('lookups_overlapping_replacement')
            missed = (o['kind'] == 'raise') or (o['op'] == 'contains' and o['result'] is False) or \
                     (o['op'] == 'get' and o['result'] == 'MISS') or (o['op'] == 'setdefault' and o['result'] == 'DEFAULT')
            if missed:
                res.violation('key %r is continuously present (writers only replace it) but %s reported %r' % (
                    o['args'][0], o['op'], o['result']),
                    dict(extra, overlapping_replacement=overl, history=[
                        {k: x[k] for k in ('client', 'op', 'args', 'call', 'ret', 'kind', 'result')} for x in rec.ops]),
                    signature=classify(o, overl))
                return
    finally:
        probe.set_controller(None)
        for o in list({id(x): x for x in objs + [base_ix]}.values()):
            try:
                o.cache.close()
            except Exception:      # noqa: BLE001
                pass
        sc.drop(d)


def classify_presence(o, overl):
    return None


# ------------------------------------------------------ (ii) per-op atomicity
def od_step(state, o):
    d = collections.OrderedDict(state)
    op, a = o['op'], o['args']

    def out(kind, r):
        return [(tuple(d.items()), kind, r)]
    if op == 'setitem':
        d[a[0]] = a[1]
        return out('ok', None)
    if op == 'getitem':
        return out('ok', d[a[0]]) if a[0] in d else out('raise', 'KeyError')
    if op == 'delitem':
        if a[0] in d:
            del d[a[0]]
            return out('ok', None)
        return out('raise', 'KeyError')
    if op == 'pop':
        return out('ok', d.pop(a[0], 'D'))
    if op == 'popitem':
        if not d:
            return out('raise', 'KeyError')
        return out('ok', d.popitem(last=a[0]))
    if op == 'setdefault':
        return out('ok', d.setdefault(a[0], a[1]))
    if op == 'len':
        return out('ok', len(d))
    if op == 'contains':
        return out('ok', a[0] in d)
    raise ValueError(op)


_FLAT = {}


def flat_disk(dc):
    """Disk subclass that keeps every value file in one sub-directory."""
    if id(dc) not in _FLAT:
        import codecs

        class FlatDisk(dc.Disk):
            def filename(self, key=None, value=None):
                name = codecs.encode(os.urandom(12), 'hex').decode('utf-8') + '.val'
                filename = os.path.join('values', name)
                return filename, os.path.join(self._directory, filename)
        _FLAT[id(dc)] = FlatDisk
    return _FLAT[id(dc)]


def atomicity_schedule(dc, sc, res, rng, label):
    d = sc.new()
    clock = probe.set_clock(probe.VClock())
    shared = rng.random() < 0.5
    # a Disk subclass may lay the value files out differently (the documented filename() hook): with all files in one
    # sub-directory, one client's clean-up of an emptied directory meets another client's write into it
    flat = rng.random() < 0.3
    disk_kw = {'disk': flat_disk(dc)} if flat else {}
    if flat:
        res.count('schedules_on_a_flat_disk_layout')
    base = dc.Cache(d, timeout=0, disk_min_file_size=T, eviction_policy='none', **disk_kw)
    base_ix = dc.Index.fromcache(base)
    init = collections.OrderedDict()
    for k in ['a', 'b', 'c'][:rng.randrange(0, 4) if not flat else 1]:
        init[k] = ('i%s;' % k) * (30 if flat or rng.random() < 0.5 else 1)     # (flat: the one file of the directory)
        base_ix[k] = init[k]
    n = rng.randrange(2, 4)
    # clients with their own Index open it (and sometimes open a new one between two calls, or take an unpickled copy)
    # inside the schedule, while the others are writing
    late = (not shared) and rng.random() < 0.6
    objs = [base_ix if shared else None if late else dc.Index.fromcache(dc.Cache(d, timeout=0, **disk_kw)) for _ in range(n)]
    opened = []

    def open_index(how):
        ix = dc.Index.fromcache(dc.Cache(d, timeout=0, **disk_kw))
        opened.append(ix)
        res.count('indexes_opened_inside_schedules')
        return ix
    sch = Sched(rng, clock, strategy=rng.choice(['random', 'preempt', 'random', 'ops']),
                preempt_points={rng.randrange(0, 150) for _ in range(3)})
    if flat and rng.random() < 0.7:
        # the adversary: whenever a client is about to create a value file, another client first completes a whole call
        sch = Sched(rng, clock, strategy='chase', victims=[0], chase_label='pre:fcreate')
    if store_gates(sch, rng, dc):
        res.count('schedules_with_attribute_store_gates')
    rec = Recorder(sch)

    def client(ci):
        def run():
            if objs[ci] is None:
                objs[ci] = open_index('open')
            for i in range(rng.randrange(2, 5)):
                if late and rng.random() < 0.25:
                    objs[ci] = open_index('reopen')
                k = rng.choice(['a', 'b', 'c'])
                op = rng.choice(['setitem', 'getitem', 'pop', 'popitem', 'setdefault', 'delitem', 'len', 'contains'])
                v = ('c%d-%d;' % (ci, i)) * (30 if flat or rng.random() < 0.5 else 1)
                if flat and rng.random() < 0.6:
                    op = rng.choice(['setitem', 'pop', 'delitem', 'popitem', 'setdefault'])
                I = objs[ci]
                if op == 'setitem':
                    rec.call(ci, op, (k, v), lambda: I.__setitem__(k, v))
                elif op == 'getitem':
                    rec.call(ci, op, (k,), lambda: I[k])
                elif op == 'pop':
                    rec.call(ci, op, (k,), lambda: I.pop(k, 'D'))
                elif op == 'popitem':
                    last = rng.random() < 0.5
                    rec.call(ci, op, (last,), lambda: I.popitem(last=last))
                elif op == 'setdefault':
                    rec.call(ci, op, (k, v), lambda: I.setdefault(k, v))
                elif op == 'delitem':
                    rec.call(ci, op, (k,), lambda: I.__delitem__(k))
                elif op == 'len':
                    rec.call(ci, op, (), lambda: len(I))
                else:
                    rec.call(ci, op, (k,), lambda: k in I)
        return run
    try:
        ok = sch.run([client(i) for i in range(n)])
        probe.set_controller(None)
        extra = {'label': label, 'shared_object': shared, 'trace_hash': sch.trace_hash(), 'init': list(init.items())}
        errs = sch.errors()
        if errs:
            res.violation('client died: %s' % errs[0][1][1][-400:], extra)
            return
        if not ok:
            res.count('schedules_hit_step_cap')
            return
        ops = list(rec.ops)
        for o in ops:
            if o['kind'] == 'raise' and o['result'] != 'KeyError':
                res.violation('%s raised %s (%s)' % (o['op'], o['result'], o.get('exc')), extra)
                return
        fresh = dc.Index(d)
        t = sch.tick + 5
        ops.append({'client': 99, 'op': 'len', 'args': (), 'kw': {}, 'call': t, 'ret': t + 1, 'kind': 'ok', 'result': len(fresh)})
        t += 2
        for k in ['a', 'b', 'c']:
            try:
                r = ('ok', fresh[k])
            except KeyError:
                r = ('raise', 'KeyError')
            ops.append({'client': 99, 'op': 'getitem', 'args': (k,), 'kw': {}, 'call': t, 'ret': t + 1, 'kind': r[0],
                        'result': r[1]})
            t += 2
        fresh.cache.close()
        try:
            good, info = lin.check(ops, tuple(init.items()), od_step, timeout=10)
        except lin.Timeout:
            res.count('linearizability_search_timeouts')
            good = True
        res.count('atomicity_schedules')
        res.count('evaluations')
        if sch.preemptions_in_op:
            res.seen('schedules', sch.trace_hash())
        if not good:
            res.violation('Index history is not linearizable against OrderedDict',
                          dict(extra, checker=info, history=[{k: o[k] for k in ('client', 'op', 'args', 'call', 'ret',
                                                                                'kind', 'result')} for o in ops]))
    finally:
        probe.set_controller(None)
        for o in list({id(x): x for x in objs + [base_ix] + opened if x is not None}.values()):
            try:
                o.cache.close()
            except Exception:      # noqa: BLE001
                pass
        sc.drop(d)


CHILD = r'''
import json, random, sys, time
sys.path.insert(0, %(verif)r)
from vf import common, probe
dc = common.use_repo()
probe.install(audit=False)
d, role, ci, seed, n = sys.argv[1], sys.argv[2], int(sys.argv[3]), int(sys.argv[4]), int(sys.argv[5])
rng = random.Random(seed * 100 + ci)
class Delay:
    def gate(self, label, info=None):
        if rng.random() < 0.2:
            time.sleep(rng.random() * 0.001)
probe.set_controller(Delay())
from vf.checks import c12
print(json.dumps(c12.free_client(dc.Index(d), role, ci, rng, n)))
'''


def free_client(I, role, ci, rng, n):
    misses = []
    count = 0
    if role == 'writer':
        for i in range(n):
            I['k'] = ('w%d-%d;' % (ci, i)) * (30 if i % 2 else 1)
            count += 1
    else:
        for i in range(n * 3):
            how = i % 4
            try:
                if how == 0:
                    v = I['k']
                elif how == 1:
                    v = 'k' in I
                    if v is False:
                        misses.append(('contains', i))
                elif how == 2:
                    v = I.get('k', 'MISS')
                    if v == 'MISS':
                        misses.append(('get', i))
                else:
                    v = I.setdefault('k', 'DEFAULT')
                    if v == 'DEFAULT':
                        misses.append(('setdefault', i))
                if isinstance(v, str) and v not in ('MISS', 'DEFAULT'):
                    head = v.split(';')[0] + ';'
                    if v != head * (len(v) // len(head)):
                        misses.append(('mixed value', i))
            except KeyError:
                misses.append(('getitem KeyError', i))
            count += 1
    I.cache.close()
    return {'role': role, 'count': count, 'misses': misses[:5], 'nmiss': len(misses)}


def free_run(dc, sc, res, rng, seed, topo, label):
    d = sc.new()
    journal = rng.choice(['wal', 'wal', 'delete', 'truncate', 'persist'])
    res.count('free_runs_journal_' + ('wal' if journal == 'wal' else 'rollback'))
    c = dc.Cache(d, disk_min_file_size=T, eviction_policy='none', **common.journal_kw(journal))
    c['k'] = 'init;' * 30
    c.close()
    roles = [('writer', 0), ('writer', 1), ('reader', 2), ('reader', 3)][:rng.randrange(3, 5)]
    if not any(r == 'reader' for r, _ in roles):
        roles.append(('reader', 9))
    n = rng.randrange(60, 150)
    outs = []
    if topo == 'processes':
        code = CHILD % {'verif': common.VERIF}
        env = dict(os.environ, VF_REPO=common.REPO, PYTHONDONTWRITEBYTECODE='1')
        procs = [subprocess.Popen([common.PY, '-c', code, d, role, str(ci), str(seed), str(n)], stdout=subprocess.PIPE,
                                  stderr=subprocess.PIPE, env=env) for role, ci in roles]
        for p in procs:
            try:
                so, se = p.communicate(timeout=300)
            except subprocess.TimeoutExpired:
                p.kill()
                res.inconclusive.append('free-running index process hit the watchdog')
                return
            if p.returncode:
                res.violation('index client process died: %s' % se.decode()[-400:], {'label': label})
                return
            outs.append(json.loads(so))
    else:
        import random as _r
        results = [None] * len(roles)

        def worker(idx, role, ci):
            results[idx] = free_client(dc.Index(d), role, ci, _r.Random(seed * 100 + ci), n)
        ths = [threading.Thread(target=worker, args=(i, r, c)) for i, (r, c) in enumerate(roles)]
        for th in ths:
            th.start()
        for th in ths:
            th.join(300)
        if any(r is None for r in results):
            res.inconclusive.append('free-running index thread did not finish')
            return
        outs = results
    sc.drop(d)
    res.count('free_runs')
    res.count('evaluations')
    for o in outs:
        if o['role'] == 'reader':
            res.count('presence_lookups', o['count'])
            if o['nmiss']:
                res.violation('free-running %s: key continuously present but %d of %d lookups missed, e.g. %r' % (
                    topo, o['nmiss'], o['count'], o['misses'][:3]), {'label': label}, signature=None)
                return


def long_index(dc, sc, res, rng, size, how, label):
    """An Index with more items than any page the library reads rows in (pages of 100): everything that walks the whole
    mapping against collections.OrderedDict."""
    d = sc.new()
    owner = None
    try:
        if how == 'fanout':
            owner = dc.FanoutCache(d, shards=2)
            I = owner.index('long')
        else:
            I = dc.Index(d)
        pairs = [(('k', i) if i % 5 == 0 else 'key-%04d' % ((i * 7919) % 10007), i) for i in range(size)]
        I.update(pairs)
        R = collections.OrderedDict(pairs)
        wit = {'label': label, 'size': size, 'how': how}

        def compare(what):
            res.count('evaluations')
            ok = (list(I) == list(R) and list(reversed(I)) == list(reversed(R)) and len(I) == len(R)
                  and list(I.keys()) == list(R.keys()) and list(I.values()) == list(R.values())
                  and list(I.items()) == list(R.items()) and I == R and I == dict(R))
            if not ok:
                res.violation('an Index of %d items after %s: iteration yields %d keys (reversed %d, values %d, items %d), len %d'
                              % (len(R), what, len(list(I)), len(list(reversed(I))), len(list(I.values())),
                                 len(list(I.items())), len(I)), wit)
            return ok
        if not compare('update'):
            return
        for last in (True, False, True):
            a, b = outcome(lambda: I.popitem(last=last)), outcome(lambda: R.popitem(last=last))
            if a != b:
                res.violation('popitem(last=%s) on %d items -> %r, OrderedDict -> %r' % (last, size, a, b), wit)
                return
        k = list(R)[len(R) - 2]
        a, b = outcome(lambda: I.pop(k)), outcome(lambda: R.pop(k))
        if a != b or not compare('pops near both ends'):
            return
        I[('k', 0)] = 'again'
        R[('k', 0)] = 'again'
        if not compare('assignment to the oldest key'):
            return
        if how != 'fanout':
            twin = pickle.loads(pickle.dumps(I))
            if list(twin.items()) != list(R.items()):
                res.violation('an unpickled Index of %d items yields %d items' % (len(R), len(list(twin.items()))), wit)
                return
        I.clear()
        R.clear()
        if not compare('clear'):
            return
        res.count('long_indexes')
    finally:
        if owner is not None:
            owner.close()
        sc.drop(d)


def run_shard(tier, seed, shard, nshards, res):
    dc = common.use_repo()
    probe.install()
    with common.Scratch() as sc:
        for i in range(10 if tier == 'quick' else 250):
            rng = common.rng_for(seed, 'c12s', shard, i)
            history(dc, sc, res, rng, 'c12 history seed=%d shard=%d i=%d' % (seed, shard, i))
            if res.new_violations() > 8:
                return
        sizes = [100, 101, 102, 103, 199, 200, 201, 202, 250, 301, 302, 5]
        for j in range(1 if tier == 'quick' else 6):
            rng = common.rng_for(seed, 'c12l', shard, j)
            size = sizes[(shard + j * 5 + seed) % len(sizes)]
            how = 'fanout' if (shard + j) % 4 == 3 else 'directory'
            long_index(dc, sc, res, rng, size, how, 'c12 long index seed=%d shard=%d size=%d %s' % (seed, shard, size, how))
        probe.reset()
        for i in range(60 if tier == 'quick' else 1000):
            rng = common.rng_for(seed, 'c12p', shard, i)
            presence_schedule(dc, sc, res, rng, 'c12 presence seed=%d shard=%d i=%d' % (seed, shard, i), classify_presence)
            if res.new_violations() > 8:
                return
        for i in range(40 if tier == 'quick' else 600):
            rng = common.rng_for(seed, 'c12a', shard, i)
            atomicity_schedule(dc, sc, res, rng, 'c12 atomicity seed=%d shard=%d i=%d' % (seed, shard, i))
            if res.new_violations() > 8:
                return
        probe.reset()
        for i in range(1 if tier == 'quick' else 6):
            rng = common.rng_for(seed, 'c12f', shard, i)
            topo = 'processes' if (shard + i) % 2 else 'threads'
            free_run(dc, sc, res, rng, seed * 1000 + shard * 10 + i, topo,
                     'c12 free run seed=%d shard=%d i=%d %s' % (seed, shard, i, topo))
