"""C11 - Deque is a persistent collections.deque."""

import collections
import json
import operator
import os
import pickle
import subprocess
import threading
import time

from .. import common, gen, lin, observe, probe
from ..observe import same
from ..sched import LateHandles, Recorder, Sched, store_gates

PROP = 'C11'
LEVEL = 'exploration'
RULE = ('histories of 50-400 Deque calls (append/appendleft/extend/extendleft/pop/popleft/peek/peekleft/indexing/'
        'assignment/deletion by index over [-len-2, len+2]/rotate/reverse/remove/count/six comparisons/iteration both '
        'ways/clear/maxlen change/+=/len) stepped in lock-step with collections.deque(maxlen); result or exception type '
        'of every call and list(D), len(D), reversed(D) after every call are compared; reopen / pickle / copy / '
        'FanoutCache.deque / DjangoCache.deque events, a 1 KiB size_limit and a clock jump of years are inserted at '
        'random points. concurrent: producers/consumers under the schedule fuzzer (linearizability against the bounded '
        'deque model, exactly-once) and free-running threads/processes. evaluations = calls judged + schedules; '
        'distinct_nontrivial = distinct (operation, outcome class, maxlen, empty/non-empty) cells + distinct schedules '
        'with a preemption inside an operation')
DISTINCT = ('cells', 'schedules')
REQUIRED = ('long_deques', 'scheduled_item_accesses', 'calls_judged', 'file_backed_values', 'reopen_events', 'pickle_events', 'copy_events', 'fanout_deques',
            'django_deques', 'maxlen_trims', 'size_limit_squeezes', 'schedules_checked', 'free_runs',
            'exceptions_matched', 'extends_from_failing_iterables', 'blocks_left_by_KeyboardInterrupt',
            'blocks_left_by_GeneratorExit', 'blocks_left_by_commit')
ASSUMPTIONS = ('maxlen None is reported by Deque as inf (declared normalisation)',
               'comparison operands are deque-typed on both sides; non-int indices are not generated',
               'reopening with a smaller maxlen is not generated (the statement does not fix it)')

T = 64
MAXLENS = [None, None, 0, 1, 3, 7]


def plan(tier):
    return {'nshards': 16 if tier == 'quick' else 48, 'timeout': 900 if tier == 'quick' else 3600}


def outcome(fn):
    try:
        return ('ok', fn())
    except Exception as exc:       # noqa: BLE001
        return ('raise', type(exc).__name__)


def make_deque(dc, sc, rng, how, maxlen, res):
    d = sc.new()
    if how == 'directory':
        dc.Cache(d, disk_min_file_size=T, eviction_policy='none').close()
        return dc.Deque(directory=d, maxlen=maxlen), d, None
    if how == 'fanout':
        fc = dc.FanoutCache(d, shards=2, disk_min_file_size=T)
        res.count('fanout_deques')
        return fc.deque('dq/x', maxlen=maxlen), d, fc
    from diskcache import DjangoCache
    dj = DjangoCache(d, {'SHARDS': 2, 'OPTIONS': {'disk_min_file_size': T}})
    res.count('django_deques')
    return dj.deque('dq', maxlen=maxlen), d, dj


def history(dc, sc, res, rng, label):
    maxlen = gen.pick(rng, MAXLENS)
    how = gen.pick(rng, ['directory', 'directory', 'directory', 'fanout', 'django'])
    clock = probe.set_clock(probe.VClock())
    D, d, owner = make_deque(dc, sc, rng, how, maxlen, res)
    R = collections.deque(maxlen=maxlen)
    hist = []
    n = [0]
    extra = []      # handles to close

    def val():
        n[0] += 1
        r = rng.random()
        if r < 0.25:
            res.count('file_backed_values')
            return 'v%d;' % n[0] * 40
        if r < 0.35:
            res.count('file_backed_values')
            return [b'x' * 100, n[0]]
        if r < 0.6:
            return rng.randrange(4)       # small ints repeat, so remove/count/compare are interesting
        if r < 0.7:
            return gen.pick(rng, [None, 1.0, True, 0.0, False, ''])    # == across types, falsy values
        return ('t', n[0] % 5)

    def fail(what, **kw):
        res.violation(what, dict(kw, label=label, maxlen=maxlen, how=how, history_tail=hist[-25:]))

    try:
        nops = rng.randrange(50, 250)
        for step in range(nops):
            ln = len(R)
            idx = rng.randrange(-ln - 2, ln + 3)
            op = gen.pick(rng, ['append', 'append', 'appendleft', 'extend', 'extendleft', 'pop', 'popleft', 'peek',
                                'peekleft', 'getitem', 'getitem', 'setitem', 'delitem', 'rotate', 'reverse', 'remove',
                                'count', 'compare', 'clear', 'maxlen', 'iadd', 'len', 'EVENT', 'contains', 'block'])
            args = ()
            if op == 'block':
                # a transact() block of a few appends / pops that completes or is left by an exception (ordinary,
                # KeyboardInterrupt, SystemExit, GeneratorExit in a generator suspended inside the block)
                how = gen.pick(rng, ['commit', 'RuntimeError', 'KeyboardInterrupt', 'SystemExit', 'GeneratorExit'])
                muts = [(gen.pick(rng, ['append', 'appendleft', 'pop', 'popleft']), val()) for _ in range(rng.randrange(1, 4))]
                args = (how, muts)
                saved = collections.deque(R, maxlen=R.maxlen)

                def body(Q):
                    for what, vv in muts:
                        if what in ('append', 'appendleft'):
                            getattr(Q, what)(vv)
                        elif len(Q):
                            getattr(Q, what)()

                def scan():
                    with D.transact():
                        body(D)
                        yield 'suspended inside the block'
                exc_types = {'RuntimeError': RuntimeError, 'KeyboardInterrupt': KeyboardInterrupt, 'SystemExit': SystemExit}
                try:
                    if how == 'GeneratorExit':
                        g = scan()
                        next(g)
                        g.close()
                    else:
                        with D.transact():
                            body(D)
                            if how != 'commit':
                                raise exc_types[how]()
                except (RuntimeError, KeyboardInterrupt, SystemExit):
                    pass
                if how == 'commit':
                    body(R)
                else:
                    R = saved
                res.count('blocks_left_by_' + how)
                got = exp = ('ok', None)
            elif op in ('append', 'appendleft'):
                v = val()
                args = (v,)
                got, exp = outcome(lambda: getattr(D, op)(v)), outcome(lambda: getattr(R, op)(v))
            elif op in ('extend', 'extendleft', 'iadd'):
                vs = [val() for _ in range(rng.randrange(0, 4))]
                args = (vs,)
                if rng.random() < 0.25:
                    # the iterable fails after yielding some items: what was consumed stays, the exception passes on
                    stop = rng.randrange(0, len(vs) + 1)
                    args = (vs, 'iterable raises after %d item(s)' % stop)

                    def src():
                        for j, x in enumerate(vs):
                            if j == stop:
                                raise ValueError('iterable failed')
                            yield x
                        raise ValueError('iterable failed')
                    res.count('extends_from_failing_iterables')
                else:
                    kind_of_iterable = rng.randrange(4)

                    def src():
                        return [list(vs), tuple(vs), iter(vs), collections.deque(vs)][kind_of_iterable]
                if op == 'iadd':
                    def f(x):
                        x += src()
                        return None
                    got, exp = outcome(lambda: f(D)), outcome(lambda: f(R))
                else:
                    got, exp = outcome(lambda: getattr(D, op)(src())), outcome(lambda: getattr(R, op)(src()))
            elif op in ('pop', 'popleft'):
                got, exp = outcome(getattr(D, op)), outcome(getattr(R, op))
            elif op == 'peek':
                got, exp = outcome(D.peek), outcome(lambda: R[-1])
            elif op == 'peekleft':
                got, exp = outcome(D.peekleft), outcome(lambda: R[0])
            elif op == 'getitem':
                args = (idx,)
                got, exp = outcome(lambda: D[idx]), outcome(lambda: R[idx])
            elif op == 'setitem':
                v = val()
                args = (idx, v)
                got, exp = outcome(lambda: D.__setitem__(idx, v)), outcome(lambda: R.__setitem__(idx, v))
            elif op == 'delitem':
                args = (idx,)
                got, exp = outcome(lambda: D.__delitem__(idx)), outcome(lambda: R.__delitem__(idx))
            elif op == 'rotate':
                k = rng.randrange(-ln - 3, ln + 4)
                args = (k,)
                got, exp = outcome(lambda: D.rotate(k)), outcome(lambda: R.rotate(k))
            elif op == 'reverse':
                got, exp = outcome(D.reverse), outcome(R.reverse)
            elif op in ('remove', 'count', 'contains'):
                v = gen.pick(rng, list(R) + [99, ('t', 9)]) if ln else 99
                args = (v,)
                if op == 'contains':
                    got, exp = outcome(lambda: v in D), outcome(lambda: v in R)
                else:
                    got, exp = outcome(lambda: getattr(D, op)(v)), outcome(lambda: getattr(R, op)(v))
            elif op == 'compare':
                other = collections.deque(R)
                m = rng.random()
                if m < 0.4 and other:
                    other[rng.randrange(len(other))] = gen.pick(rng, [0, 1, 2, 3])
                elif m < 0.6:
                    other.append(1)
                elif m < 0.7 and other:
                    other.pop()
                elif m < 0.85 and other:
                    # different length AND a differing early element
                    other[0] = gen.pick(rng, [0, 1, 2, 3])
                    other.extend([1, 2][:rng.randrange(1, 3)]) if rng.random() < 0.5 else other.pop()
                cmp_ = gen.pick(rng, [operator.eq, operator.ne, operator.lt, operator.le, operator.gt, operator.ge])
                args = (cmp_.__name__, list(other)[:6])
                got, exp = outcome(lambda: cmp_(D, other)), outcome(lambda: cmp_(R, other))
                if exp[0] == 'raise' and exp[1] == 'TypeError':
                    continue          # heterogeneous elements that Python itself cannot order
            elif op == 'clear':
                if rng.random() < 0.7:
                    continue
                got, exp = outcome(D.clear), outcome(R.clear)
            elif op == 'maxlen':
                new = gen.pick(rng, [None, 1, 3, 7, 2, 0])
                args = (new,)
                if new is not None and len(R) > new:
                    res.count('maxlen_trims')
                D.maxlen = float('inf') if new is None else new
                R = collections.deque(R, maxlen=new)
                maxlen = new
                got = exp = ('ok', None)
            elif op == 'len':
                got, exp = outcome(lambda: len(D)), outcome(lambda: len(R))
            else:   # EVENT
                ev = gen.pick(rng, ['reopen', 'pickle', 'copy', 'squeeze', 'clockjump', 'reopen_iterable'])
                hist.append(('EVENT', ev))
                if ev == 'reopen' and how == 'directory':
                    D.cache.close()
                    D = dc.Deque(directory=d, maxlen=maxlen)
                    res.count('reopen_events')
                elif ev == 'reopen_iterable' and how == 'directory':
                    # the constructor extends what is already stored (and trims to maxlen)
                    more = [val() for _ in range(rng.randrange(0, 3))]
                    D.cache.close()
                    D = dc.Deque(more, directory=d, maxlen=maxlen)
                    R.extend(more)
                    res.count('reopen_events')
                    if not same(list(D), list(R)):
                        return fail('Deque(iterable, directory) on an existing directory holds %r, expected %r' % (list(D)[:8], list(R)[:8]))
                elif ev == 'pickle':
                    D2 = pickle.loads(pickle.dumps(D))
                    extra.append(D2)
                    res.count('pickle_events')
                    if list(D2) != list(R) or (D2.maxlen if D2.maxlen != float('inf') else None) != R.maxlen:
                        return fail('unpickled Deque differs: %r maxlen %r' % (list(D2)[:8], D2.maxlen))
                    if rng.random() < 0.5:
                        D = D2
                elif ev == 'copy':
                    D2 = D.copy()
                    extra.append(D2)
                    res.count('copy_events')
                    if list(D2) != list(R) or (D2.maxlen if D2.maxlen != float('inf') else None) != R.maxlen:
                        return fail('copy() of the Deque differs: %r maxlen %r' % (list(D2)[:8], D2.maxlen))
                elif ev == 'squeeze':
                    D.cache.reset('size_limit', 1024)
                    res.count('size_limit_squeezes')
                elif ev == 'clockjump':
                    clock.advance(3.2e8)
                continue
            hist.append((op, args, got))
            res.count('calls_judged')
            res.count('evaluations')
            oc = got[1] if got[0] == 'raise' else type(got[1]).__name__
            res.seen('cells', (op, oc, maxlen, ln == 0))
            if exp[0] == 'raise':
                res.count('exceptions_matched')
            if got[0] != exp[0] or (got[0] == 'raise' and got[1] != exp[1]) or (got[0] == 'ok' and not same(got[1], exp[1])):
                return fail('Deque.%s%r -> %r, collections.deque -> %r' % (op, args, got, exp))
            contents = list(D)
            if not same(contents, list(R)) or len(D) != len(R):
                return fail('after %s%r the Deque holds %r (len %d), collections.deque holds %r' % (
                    op, args, contents[:10], len(D), list(R)[:10]))
            if step % 5 == 0 and not same(list(reversed(D)), list(reversed(R))):
                return fail('reversed(Deque) differs after %s' % op)
            dm = D.maxlen if D.maxlen != float('inf') else None
            if dm != R.maxlen:
                return fail('maxlen is %r, expected %r' % (D.maxlen, R.maxlen))
        if len(res.samples) < 2:
            res.sample({'label': label, 'maxlen': maxlen, 'how': how, 'history_head': hist[:12]})
    finally:
        for x in extra:
            try:
                x.cache.close()
            except Exception:      # noqa: BLE001
                pass
        try:
            D.cache.close()
        except Exception:          # noqa: BLE001
            pass
        if owner is not None:
            owner.close()
        sc.drop(d)


# ----------------------------------------------------------------- concurrent
def dq_step_factory(maxlen):
    def step(state, o):
        q = list(state)
        op, a = o['op'], o['args']
        if op == 'append':
            q.append(a[0])
            if maxlen is not None and len(q) > maxlen:
                q.pop(0)
            return [(tuple(q), 'ok', None)]
        if op == 'appendleft':
            q.insert(0, a[0])
            if maxlen is not None and len(q) > maxlen:
                q.pop()
            return [(tuple(q), 'ok', None)]
        if op == 'pop':
            if not q:
                return [(tuple(q), 'raise', 'IndexError')]
            v = q.pop()
            return [(tuple(q), 'ok', v)]
        if op == 'popleft':
            if not q:
                return [(tuple(q), 'raise', 'IndexError')]
            v = q.pop(0)
            return [(tuple(q), 'ok', v)]
        if op == 'len':
            return [(tuple(q), 'ok', len(q))]
        raise ValueError(op)
    return step


def schedule(dc, sc, res, rng, label):
    d = sc.new()
    clock = probe.set_clock(probe.VClock())
    maxlen = gen.pick(rng, [None, None, 2, 3])
    shared = rng.random() < 0.5
    base = dc.Cache(d, timeout=0, disk_min_file_size=T, eviction_policy='none')
    n = rng.randrange(2, 4)
    base_dq = dc.Deque.fromcache(base, maxlen=maxlen)
    objs = LateHandles(rng, n, lambda: dc.Deque.fromcache(dc.Cache(d, timeout=0), maxlen=maxlen),
                       shared=base_dq if shared else None)
    sch = Sched(rng, clock, strategy=rng.choice(['random', 'preempt', 'random', 'ops']),
                preempt_points={rng.randrange(0, 150) for _ in range(3)})
    if store_gates(sch, rng, dc):
        res.count('schedules_with_attribute_store_gates')
    rec = Recorder(sch)
    # a quarter of the schedules also read and assign by position next to the producers and consumers.  The property does
    # not promise that finding a position and using it is one atomic step (a position is found by walking the keys), so
    # such schedules are not compared with a sequential deque: the calls must complete - wait for a busy database, raise
    # nothing but IndexError - and nothing may be popped twice or out of thin air
    by_position = rng.random() < 0.25

    def client(ci):
        def run():
            for i in range(rng.randrange(2, 5)):
                op = rng.choice(['append', 'append', 'appendleft', 'pop', 'popleft', 'len'] + (
                    ['setitem', 'getitem'] if by_position else []))
                if op in ('setitem', 'getitem'):
                    idx = rng.choice([0, -1, 1])
                    res.count('scheduled_item_accesses')
                    if op == 'setitem':
                        v = ('s%d-%d;' % (ci, i)) * (30 if rng.random() < 0.5 else 1)
                        rec.call(ci, op, (idx, v), lambda: objs[ci].__setitem__(idx, v))
                    else:
                        rec.call(ci, op, (idx,), lambda: objs[ci][idx])
                elif op in ('append', 'appendleft'):
                    v = ('c%d-%d;' % (ci, i)) * (30 if rng.random() < 0.5 else 1)
                    rec.call(ci, op, (v,), lambda: getattr(objs[ci], op)(v))
                elif op == 'len':
                    rec.call(ci, op, (), lambda: len(objs[ci]))
                else:
                    rec.call(ci, op, (), lambda: getattr(objs[ci], op)())
        return run
    try:
        ok = sch.run([client(i) for i in range(n)])
        probe.set_controller(None)
        extra = {'label': label, 'shared_object': shared, 'maxlen': maxlen, 'trace_hash': sch.trace_hash()}
        errs = sch.errors()
        if errs:
            res.violation('client died: %s' % errs[0][1][1][-400:], extra)
            return
        if not ok:
            res.count('schedules_hit_step_cap')
            return
        ops = list(rec.ops)
        for o in ops:
            if o['kind'] == 'raise' and o['result'] != 'IndexError':
                res.violation('%s raised %s (%s)' % (o['op'], o['result'], o.get('exc')), extra)
                return
        fresh = dc.Deque(directory=d)
        t = sch.tick + 5
        remaining = []
        while True:
            try:
                v = fresh.popleft()
            except IndexError:
                ops.append({'client': 99, 'op': 'popleft', 'args': (), 'kw': {}, 'call': t, 'ret': t + 1,
                            'kind': 'raise', 'result': 'IndexError'})
                break
            remaining.append(v)
            ops.append({'client': 99, 'op': 'popleft', 'args': (), 'kw': {}, 'call': t, 'ret': t + 1, 'kind': 'ok',
                        'result': v})
            t += 2
        fresh.cache.close()
        appended = [o['args'][0] for o in ops if o['op'] in ('append', 'appendleft')]
        assigned = [o['args'][1] for o in ops if o['op'] == 'setitem']
        popped = [o['result'] for o in ops if o['op'] in ('pop', 'popleft') and o['kind'] == 'ok']
        if len(set(popped)) != len(popped):
            res.violation('an appended item was popped twice', dict(extra, popped=popped))
            return
        if not set(popped) <= set(appended) | set(assigned):
            res.violation('popped an item nobody appended', dict(extra, popped=popped))
            return
        if maxlen is None and not assigned and sorted(popped) != sorted(appended):
            res.violation('items lost without maxlen: appended %d, popped %d' % (len(appended), len(popped)), extra)
            return
        if by_position:
            res.count('schedules_with_access_by_position')
            res.count('evaluations')
            return
        try:
            good, info = lin.check(ops, (), dq_step_factory(maxlen), timeout=10)
        except lin.Timeout:
            res.count('linearizability_search_timeouts')
            good = True
        res.count('schedules_checked')
        res.count('evaluations')
        if sch.preemptions_in_op:
            res.seen('schedules', sch.trace_hash())
        if not good:
            res.violation('Deque history is not linearizable against collections.deque(maxlen=%r)' % maxlen,
                          dict(extra, checker=info, history=[{k: o[k] for k in ('client', 'op', 'args', 'call', 'ret',
                                                                                'kind', 'result')} for o in ops]))
    finally:
        probe.set_controller(None)
        for o in list({id(x): x for x in objs.all() + [base_dq]}.values()):
            try:
                o.cache.close()
            except Exception:      # noqa: BLE001
                pass
        sc.drop(d)


CHILD = r'''
import json, random, sys, time
sys.path.insert(0, %(verif)r)
from vf import common, probe
dc = common.use_repo()
probe.install(audit=False)
d, role, ci, seed, n = sys.argv[1], sys.argv[2], int(sys.argv[3]), int(sys.argv[4]), int(sys.argv[5])
rng = random.Random(seed * 100 + ci)
class Delay:
    def gate(self, label, info=None):
        if rng.random() < 0.1:
            time.sleep(rng.random() * 0.002)
probe.set_controller(Delay())
from vf.checks import c11
print(json.dumps(c11.free_client(dc.Deque(directory=d), role, ci, rng, n)))
'''


def free_client(D, role, ci, rng, n):
    out = []
    if role == 'producer':
        for i in range(n):
            v = 'p%d-%06d;' % (ci, i) * (12 if i % 3 == 0 else 1)
            (D.append if i % 2 else D.appendleft)(v)
            out.append(('append', ci, i))
    else:
        misses = 0
        while misses < 200:
            try:
                v = D.pop() if rng.random() < 0.5 else D.popleft()
            except IndexError:
                misses += 1
                time.sleep(0.001)
                continue
            misses = 0
            pc, pi = v.split(';')[0][1:].split('-')
            out.append(('pop', int(pc), int(pi), v == ('p%s-%s;' % (pc, pi)) * (12 if int(pi) % 3 == 0 else 1)))
    D.cache.close()
    return out


def free_run(dc, sc, res, rng, seed, topo, label):
    d = sc.new()
    journal = rng.choice(['wal', 'wal', 'delete', 'truncate', 'persist'])
    res.count('free_runs_journal_' + ('wal' if journal == 'wal' else 'rollback'))
    dc.Cache(d, disk_min_file_size=T, eviction_policy='none', **common.journal_kw(journal)).close()
    nprod, ncons, n = rng.randrange(2, 4), rng.randrange(1, 3), rng.randrange(30, 70)
    roles = [('producer', i) for i in range(nprod)] + [('consumer', nprod + i) for i in range(ncons)]
    outs = []
    if topo == 'processes':
        code = CHILD % {'verif': common.VERIF}
        env = dict(os.environ, VF_REPO=common.REPO, PYTHONDONTWRITEBYTECODE='1')
        procs = [subprocess.Popen([common.PY, '-c', code, d, role, str(ci), str(seed), str(n)], stdout=subprocess.PIPE,
                                  stderr=subprocess.PIPE, env=env) for role, ci in roles]
        for p in procs:
            try:
                so, se = p.communicate(timeout=300)
            except subprocess.TimeoutExpired:
                p.kill()
                res.inconclusive.append('free-running deque process hit the watchdog')
                return
            if p.returncode:
                res.violation('deque client process died: %s' % se.decode()[-400:], {'label': label})
                return
            outs.extend(json.loads(so))
    else:
        import random as _r
        results = [None] * len(roles)

        def worker(idx, role, ci):
            results[idx] = free_client(dc.Deque(directory=d), role, ci, _r.Random(seed * 100 + ci), n)
        ths = [threading.Thread(target=worker, args=(i, r, c)) for i, (r, c) in enumerate(roles)]
        for th in ths:
            th.start()
        for th in ths:
            th.join(300)
        if any(r is None for r in results):
            res.inconclusive.append('free-running deque thread did not finish')
            return
        for r in results:
            outs.extend(r)
    fresh = dc.Deque(directory=d)
    rest = list(fresh)
    fresh.cache.close()
    sc.drop(d)
    res.count('free_runs')
    res.count('evaluations')
    appended = {(o[1], o[2]) for o in outs if o[0] == 'append'}
    popped = [(o[1], o[2]) for o in outs if o[0] == 'pop']
    if any(not o[3] for o in outs if o[0] == 'pop'):
        res.violation('a popped value is partial/mixed', {'label': label})
        return
    remaining = []
    for v in rest:
        pc, pi = v.split(';')[0][1:].split('-')
        remaining.append((int(pc), int(pi)))
    allout = popped + remaining
    if len(set(allout)) != len(allout):
        res.violation('an item was delivered twice (or popped and still present)', {'label': label})
    elif set(allout) != appended:
        res.violation('items lost: appended %d, popped+remaining %d' % (len(appended), len(allout)), {'label': label})


def long_deque(dc, sc, res, rng, size, how, label):
    """A Deque longer than any page the library reads keys in (pages of 100 rows): everything that walks the whole
    deque - iteration in both directions, comparison, count, the full span of indices, remove, rotate, reverse, copy,
    reopen - against collections.deque."""
    d = sc.new()
    owner = None
    try:
        if how == 'fanout':
            owner = dc.FanoutCache(d, shards=2)
            D = owner.deque('long')
        else:
            D = dc.Deque(directory=d)
        items = [('v', i) if i % 7 else 'text-%d' % i for i in range(size)]
        D.extend(items)
        R = collections.deque(items)
        wit = {'label': label, 'size': size, 'how': how}

        def compare(what):
            res.count('evaluations')
            got, rev = list(D), list(reversed(D))
            if got != list(R) or rev != list(reversed(R)) or len(D) != len(R) or not (D == R):
                res.violation('a Deque of %d items after %s: iteration yields %d items (reversed: %d), len %d, equal to the '
                              'reference: %s' % (len(R), what, len(got), len(rev), len(D), D == R), wit)
                return False
            return True
        if not compare('extend'):
            return
        for idx in sorted({0, 1, 99, 100, 101, 102, size - 1, -1, -2, -100, -101, -102, -103, -size} | {rng.randrange(-size, size) for _ in range(6)}):
            if -size <= idx < size:
                a, b = outcome(lambda: D[idx]), outcome(lambda: R[idx])
                if a != b:
                    res.violation('Deque[%d] of %d items -> %r, collections.deque -> %r' % (idx, size, a, b), wit)
                    return
        for idx in (size - 1, -size, size // 2, -(size // 2) - 1):
            v = ('assigned', idx)
            a, b = outcome(lambda: D.__setitem__(idx, v)), outcome(lambda: R.__setitem__(idx, v))
            if a != b:
                res.violation('Deque[%d] = v on %d items -> %r, collections.deque -> %r' % (idx, size, a, b), wit)
                return
        if not compare('assignments near both ends'):
            return
        probe_item = items[size - 2]
        a, b = outcome(lambda: D.count(probe_item)), outcome(lambda: R.count(probe_item))
        if a != b:
            res.violation('count() of an item near the end of %d items -> %r, collections.deque -> %r' % (size, a, b), wit)
            return
        a, b = outcome(lambda: D.remove(probe_item)), outcome(lambda: R.remove(probe_item))
        if a != b or not compare('remove of an item near the end'):
            if a != b:
                res.violation('remove() of an item near the end of %d items -> %r, collections.deque -> %r' % (size, a, b), wit)
            return
        a, b = outcome(lambda: D.__delitem__(-3)), outcome(lambda: R.__delitem__(-3))
        if a != b or not compare('del deque[-3]'):
            return
        D.rotate(7)
        R.rotate(7)
        if not compare('rotate(7)'):
            return
        D.reverse()
        R.reverse()
        if not compare('reverse()'):
            return
        C = D.copy()
        if list(C) != list(R):
            res.violation('copy() of a Deque of %d items has %d items' % (len(R), len(list(C))), wit)
            return
        if how != 'fanout':
            D2 = dc.Deque(directory=d)
            if list(D2) != list(R):
                res.violation('a reopened Deque of %d items yields %d items' % (len(R), len(list(D2))), wit)
                return
        res.count('long_deques')
    finally:
        if owner is not None:
            owner.close()
        sc.drop(d)


def run_shard(tier, seed, shard, nshards, res):
    dc = common.use_repo()
    probe.install()
    with common.Scratch() as sc:
        for i in range(10 if tier == 'quick' else 250):
            rng = common.rng_for(seed, 'c11s', shard, i)
            history(dc, sc, res, rng, 'c11 history seed=%d shard=%d i=%d' % (seed, shard, i))
            if res.new_violations() > 8:
                return
        sizes = [100, 101, 102, 103, 199, 200, 201, 202, 250, 301, 302, 5]
        for j in range(1 if tier == 'quick' else 6):
            rng = common.rng_for(seed, 'c11l', shard, j)
            size = sizes[(shard + j * 5 + seed) % len(sizes)]
            how = 'fanout' if (shard + j) % 4 == 3 else 'directory'
            long_deque(dc, sc, res, rng, size, how, 'c11 long deque seed=%d shard=%d size=%d %s' % (seed, shard, size, how))
        probe.reset()
        for i in range(40 if tier == 'quick' else 800):
            rng = common.rng_for(seed, 'c11c', shard, i)
            schedule(dc, sc, res, rng, 'c11 schedule seed=%d shard=%d i=%d' % (seed, shard, i))
            if res.new_violations() > 8:
                return
        probe.reset()
        for i in range(1 if tier == 'quick' else 6):
            rng = common.rng_for(seed, 'c11f', shard, i)
            topo = 'processes' if (shard + i) % 2 else 'threads'
            free_run(dc, sc, res, rng, seed * 1000 + shard * 10 + i, topo,
                     'c11 free run seed=%d shard=%d i=%d %s' % (seed, shard, i, topo))
