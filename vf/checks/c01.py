"""C01 - stored values come back identical, whatever type, size, storage path."""

import io
import enum
import pickle

from .. import common, gen, observe, probe
from ..observe import same

PROP = 'C01'
LEVEL = 'exploration'
RULE = ('seeded value generator (ints of any magnitude, floats incl. -0.0/inf/nan/subnormal, str over ASCII/CR/LF/'
        'NUL/U+0085/U+2028/astral/lone-surrogate alphabets with lengths T-2..T+2 in characters and in UTF-8 bytes, '
        'bytes T-2..T+2, None/bool, nested containers, user classes, binary streams) x disk_min_file_size in '
        '{0,1,16,32768} x pickle protocol 0-5 x Disk/JSONDisk(0,1,9) x store paths x every applicable accessor; the '
        'oracle is type-exact deep equality with floats by bit class. evaluations = accessor reads judged; '
        'distinct_nontrivial = distinct (value class, storage mode read from the row, side of T, disk class, store '
        'path) cells'
        " Plus: a Disk subclass with six file names (the documented filename() hook) - a store whose file name is in use is refused loudly or leaves every other key's value intact.")
DISTINCT = ('cells',)
REQUIRED = ('stores_refused_for_a_file_name_in_use', 'stores_accepted_beside_colliding_names', 'values_popped_in_abandoned_blocks', 'numbers_stepped_in_place', 'stores_over_expired_file', 'stores_over_live_file', 'stores_over_expired_inline', 'mode_raw', 'mode_binary_file', 'mode_text_file', 'mode_pickle_inline', 'mode_pickle_file',
            'streams', 'rejected_values', 'jsondisk_roundtrips', 'deque_roundtrips', 'index_roundtrips',
            'fanout_roundtrips', 'push_roundtrips', 'fault_injected_stores', 'configs_lookup_in_transaction',
            'configs_lookup_lock_free', 'relative_directory_roundtrips', 'relocated_directory_roundtrips',
            'lookups_through_unpickled_handle')
ASSUMPTIONS = ('equality oracle: same type, same bits for floats, same code points, same bytes, recursive for containers',
               'JSONDisk is exercised with JSON fixed-point values only (no tuples, non-str dict keys, bytes)')

MODE_NAMES = {1: 'raw', 2: 'binary_file', 3: 'text_file', 4: 'pickle'}


class MyStr(str):
    pass


class MyInt(int):
    pass


class MyBytes(bytes):
    pass


class MyFloat(float):
    pass


class Colour(str, enum.Enum):
    RED = 'red'


class Level(enum.IntEnum):
    LOW = 1


def attributed(obj, **attrs):
    obj.__dict__.update(attrs)
    return obj


def plan(tier):
    return {'nshards': 16 if tier == 'quick' else 48, 'timeout': 900 if tier == 'quick' else 3600}


ALPHABETS = {
    'ascii': 'abcXYZ 019',
    'crlf': 'a\r\nb\rc\n',
    'cr': '\r',
    'nul': 'a\x00b',
    'nel': 'x\x85y z ',
    'astral': '\U0001F600\U00010348é',
    'combining': 'éö',
    'surrogate': 'a\ud800b',
    'mixed': 'a\r \x00\U0001F600\n',
    # characters that decoders and file layers like to eat: byte-order mark (first!), zero-width / bidi marks,
    # the replacement character, ^Z, DEL, form feed, escape, backspace
    'bom': '\ufeffa\ufeff',
    'marks': '\u200b\u200e\u2060\ufffd\ufffe x',
    'control': '\x1a\x7f\x0c\x1b\x08z',
}


def str_of(alpha, n):
    a = ALPHABETS[alpha]
    return (a * (n // len(a) + 1))[:n]


def str_of_bytes(alpha, nbytes):
    """A str whose UTF-8 size is as close as possible to nbytes (from below)."""
    a = ALPHABETS[alpha]
    out, size, i = [], 0, 0
    while True:
        ch = a[i % len(a)]
        sz = len(ch.encode('utf-8', 'surrogatepass'))
        if size + sz > nbytes:
            break
        out.append(ch)
        size += sz
        i += 1
    return ''.join(out)


def values(rng, T, json_only):
    """Yield (class_name, value)."""
    ints = [0, 1, -1, 255, 2**31, 2**63 - 1, 2**63, -2**63, -2**63 - 1, 2**70, -2**70, rng.randrange(-2**64, 2**64)]
    for v in ints:
        yield ('int64' if -2**63 <= v < 2**63 else 'bigint', v)
    floats = [0.0, -0.0, 1.5, float('inf'), float('-inf'), float('nan'), 5e-324, 2.2250738585072014e-308,
              1.7976931348623157e308, float(2**53), rng.random() * 10 ** rng.randrange(-300, 300), -rng.random()]
    for v in floats:
        yield ('float_' + ('nan' if v != v else 'inf' if v in (float('inf'), float('-inf')) else
                           'negzero' if str(v) == '-0.0' else 'finite'), v)
    for v in (None, True, False):
        yield ('none_bool', v)
    lens = sorted({max(0, T + d) for d in (-2, -1, 0, 1, 2)} | {0, 1, 3})
    for alpha in ALPHABETS:
        for n in lens:
            if n > 40000 and alpha not in ('ascii', 'crlf', 'astral'):
                continue
            yield ('str_' + alpha, str_of(alpha, n))
        if T > 4:
            for nb in (T - 1, T, T + 1):
                yield ('str_' + alpha + '_bytelen', str_of_bytes(alpha, nb))
    if not json_only:
        for n in lens:
            yield ('bytes', bytes((i * 37 + n) % 256 for i in range(n)))
        yield ('bytes_crlf', b'a\r\nb\r' * (T // 5 + 1))
        yield ('bytes_picklelike', pickle.dumps(('x', 1), protocol=2) * (T // 12 + 1))
        yield ('tuple', (1, 'a', None, (2.5, b'x')))
        yield ('set', frozenset([1, 'a', 2.5]))
        yield ('container_nan', [float('nan'), (-0.0, float('inf')), {'k': float('nan')}])
        yield ('container_big', ['L' * (T + 3), (b'M' * T, 2**70)])
        yield ('dict_mixed', {1: 'a', 'b': (2, 3), None: [4]})
        yield ('userclass', gen.Blob(('p', 1.5, 'q' * (T // 2))))
        yield ('userclass_big', gen.Blob('r' * (T + 10)))
        yield ('str_subclass', MyStr('sub' * (T // 3 + 1)))
        yield ('int_subclass', MyInt(7))
        yield ('str_subclass', attributed(MyStr('s'), note='kept', n=(1, 2.5)))
        yield ('bytes_subclass', MyBytes(b'sub' * (T // 3 + 1)))
        yield ('bytes_subclass', attributed(MyBytes(b's'), note='kept'))
        yield ('float_subclass', attributed(MyFloat(2.5), unit='s'))
        yield ('int_subclass', attributed(MyInt(2**70), unit='B'))
        yield ('enum_member', Colour.RED)
        yield ('enum_member', Level.LOW)
        yield ('bytearray', bytearray(b'ba' * (T // 2 + 1)))
    yield ('list', [1, 'a', None, [2.5, 'x\r\ny']])
    yield ('dict_str', {'a': 1, 'b': [2, 3.5, None], 'c\r': 'd\r\n'})
    yield ('list_nan', [float('nan'), -0.0, float('inf')])
    yield ('list_big', ['L' * (T + 3), 'x\r' * (T // 2 + 1), 2**70])


def describe(v):
    r = repr(v)
    return r if len(r) < 80 else r[:60] + '...<%d>' % len(r)


class Case:
    def __init__(self, res, cfg_label, sig_fn):
        self.res = res
        self.cfg = cfg_label
        self.sig = sig_fn

    def judge(self, cls, path, accessor, stored, got, mode):
        self.res.count('evaluations')
        if not same(stored, got):
            self.res.violation(
                '%s stored via %s came back through %s as %s' % (describe(stored), path, accessor, describe(got)),
                {'config': self.cfg, 'class': cls, 'mode': mode, 'stored': stored, 'got': got,
                 'store_path': path, 'accessor': accessor},
                signature=self.sig(cls, stored, got, mode))
            return False
        return True


def signature(cls, stored, got, mode):
    return None


def read_handle(h):
    if hasattr(h, 'read') and not isinstance(h, (str, bytes)):
        try:
            return ('handle', h.read())
        finally:
            h.close()
    return ('value', h)


def run_config(dc, sc, res, rng, T, proto, disk_name, level, budget):
    json_only = disk_name == 'JSONDisk'
    # statistics and the LRU / LFU policies move lookups from the lock-free path to the transactional one
    policy = gen.pick(rng, ['none', 'least-recently-stored', 'least-recently-used', 'least-frequently-used'])
    stats = rng.random() < 0.4
    settings = {'disk_min_file_size': T, 'disk_pickle_protocol': proto, 'eviction_policy': policy, 'statistics': stats,
                'tag_index': rng.random() < 0.3}
    res.count('configs_lookup_in_transaction' if stats or policy in ('least-recently-used', 'least-frequently-used')
              else 'configs_lookup_lock_free')
    if json_only:
        settings['disk'] = dc.JSONDisk
        settings['disk_compress_level'] = level
    cfg_label = {'T': T, 'protocol': proto, 'disk': disk_name, 'compress_level': level if json_only else None,
                 'policy': policy, 'statistics': stats}
    d = sc.new()
    cache = dc.Cache(d, **settings)
    obs = observe.Observer(d)
    case = Case(res, cfg_label, signature)
    n = 0
    # what a worker process or a task queue gets: the handle after a round trip through pickle (same Disk class, same
    # serializer settings), and a handle opened by directory with the Disk class given again
    twin = pickle.loads(pickle.dumps(cache))
    try:
        vals = list(values(rng, T, json_only))
        rng.shuffle(vals)
        for cls, v in vals[:budget]:
            n += 1
            key = 'k%d' % n
            path = gen.pick(rng, ['set', 'add', 'setitem'])
            # ---- what the key held before is a dimension: nothing, a live value (replaced by set / setitem), or a value
            # whose time-to-live is over but whose row is still stored (replaced in place by set and by add alike)
            prior = gen.pick(rng, ['absent', 'absent', 'live inline', 'live file', 'expired inline', 'expired file'])
            if prior != 'absent' and not (path == 'add' and prior.startswith('live')):
                old = 'o' * (T + 20) if prior.endswith('file') else 'old'
                clock = probe.set_clock(probe.VClock())
                cache.reset('cull_limit', 0)          # (so that storing the expiring item does not remove it again)
                cache.set(key, old, expire=1.0 if prior.startswith('expired') else None, tag='old')
                if prior.startswith('expired'):
                    clock.advance(5.0)
                cache.reset('cull_limit', 10)
                res.count('stores_over_' + prior.replace(' ', '_'))
            else:
                prior = 'absent'
            # ---- store
            try:
                if path == 'set':
                    cache.set(key, v, tag='t')
                elif path == 'add':
                    assert cache.add(key, v) is True
                else:
                    cache[key] = v
            except Exception as exc:      # noqa: BLE001 - rejection is a legal outcome
                res.count('rejected_values')
                res.seen('cells', ('rejected', cls, disk_name, type(exc).__name__))
                if prior.startswith('live'):
                    if cache.get(key, 'ABSENT') != old:
                        res.violation('store of %s raised %s and the value stored before is %r' % (
                            describe(v), type(exc).__name__, cache.get(key, 'ABSENT')),
                            {'config': cfg_label, 'class': cls, 'value': v, 'prior': prior})
                elif key in cache or cache.get(key, 'ABSENT') != 'ABSENT':
                    res.violation('store of %s raised %s but the key exists afterwards' % (describe(v), type(exc).__name__),
                                  {'config': cfg_label, 'class': cls, 'value': v, 'prior': prior})
                # rejected over an existing value: the old value must survive
                cache.set(key, 'old')
                try:
                    cache.set(key, v)
                except Exception:         # noqa: BLE001
                    if cache.get(key) != 'old':
                        res.violation('rejected store of %s altered the previous value' % describe(v),
                                      {'config': cfg_label, 'class': cls, 'got': cache.get(key)})
                cache.pop(key)
                continue
            rows_now = obs.rows()
            row = rows_now[-1] if json_only else [r for r in rows_now if observe.row_key(r['key'], r['raw']) == key][0]
            mode = MODE_NAMES.get(row['mode'], str(row['mode']))
            if mode == 'pickle':
                mode = 'pickle_file' if row['filename'] else 'pickle_inline'
            res.count('mode_' + mode)
            side = 'ge_T' if row['filename'] else 'lt_T'
            res.seen('cells', (cls, mode, side, disk_name, path, prior))
            if json_only:
                res.count('jsondisk_roundtrips')
            # ---- every accessor
            ok = case.judge(cls, path, 'get', v, cache.get(key), mode)
            ok &= case.judge(cls, path, 'getitem', v, cache[key], mode)
            ok &= case.judge(cls, path, 'get through an unpickled handle', v, twin.get(key, '<MISSING>'), mode)
            res.count('lookups_through_unpickled_handle')
            got3 = cache.get(key, expire_time=True, tag=True)
            ok &= case.judge(cls, path, 'get(expire_time,tag)', v, got3[0], mode)
            if not json_only:
                # JSONDisk deliberately bypasses (de)serialisation when `read` is set on either side
                # (its store/fetch transform only `if not read`), so read-flag accessors are paired
                # with read-flag stores there (the stream cases below); see DESIGN.md section 7.
                kind, data = read_handle(cache.get(key, read=True))
                ok &= case.judge(cls, path, 'get(read=True) ' + kind, v, data, mode)
                kind, data = read_handle(cache.read(key))
                ok &= case.judge(cls, path, 'read ' + kind, v, data, mode)
            pk, pv = cache.peekitem(last=True)
            ok &= case.judge(cls, path, 'peekitem', v, pv, mode)
            if n % 4 == 0:
                # taken out inside a transaction that is then abandoned: the value is as it was
                try:
                    with cache.transact():
                        cache.pop(key)
                        raise AbandonedBlock()
                except AbandonedBlock:
                    pass
                res.count('values_popped_in_abandoned_blocks')
                ok &= case.judge(cls, path, 'get after pop in an abandoned transaction', v, cache.get(key, '<MISSING>'), mode)
            if path != 'set' or n % 2:
                ok &= case.judge(cls, path, 'pop', v, cache.pop(key), mode)
            else:
                pv, pe, pt = cache.pop(key, expire_time=True, tag=True)
                ok &= case.judge(cls, path, 'pop(expire_time,tag)', v, pv, mode)
            if len(res.samples) < 3:
                res.sample({'config': cfg_label, 'class': cls, 'value': v, 'mode': mode, 'store_path': path})
            # ---- queue path
            if n % 3 == 0:
                side = gen.pick(rng, ['back', 'front'])
                qk = cache.push(v, prefix='q', side=side)
                res.count('push_roundtrips')
                if not json_only:   # under JSONDisk queue keys bypass the key serializer (C10 is about Disk)
                    ok &= case.judge(cls, 'push', 'get(pushed key)', v, cache.get(qk), mode)
                ok &= case.judge(cls, 'push', 'peek', v, cache.peek(prefix='q', side=side)[1], mode)
                ok &= case.judge(cls, 'push', 'pull', v, cache.pull(prefix='q', side=side)[1], mode)
            # ---- incr-created numbers
            if cls in ('int64', 'float_finite', 'float_inf', 'float_negzero', 'bigint', 'float_nan') and not json_only:
                try:
                    r = cache.incr(key + 'i', delta=0, default=v)
                except OverflowError:
                    r = None
                if r is not None:
                    expect = v + 0
                    ok &= case.judge(cls, 'incr(default)', 'incr result', expect, r, 'raw')
                    ok &= case.judge(cls, 'incr(default)', 'get', expect, cache.get(key + 'i'), 'raw')
                    cache.pop(key + 'i')
        # ---- numbers changed in place by incr / decr: what is read back is what incr returned, type included; a step that
        # leaves the 64-bit range is refused as a whole (the stored number stays) or stored exactly - never something else
        if not json_only:
            for start, delta in ((2**63 - 2, 1), (2**63 - 2, 3), (-2**63 + 1, -1), (-2**63 + 1, -5), (2**62, 2**62),
                                 (2**53, 1), (10, 2.5), (1.5, 1), (0.1, 0.2), (-1, 1), (2**63 - 1, -2**63)):
                key = 'stepped'
                cache.set(key, start)
                op = 'incr' if delta >= 0 else 'decr'
                try:
                    r = getattr(cache, op)(key, abs(delta))
                except (OverflowError, TypeError) as exc:
                    r = exc
                res.count('numbers_stepped_in_place')
                res.seen('cells', ('stepped', start, delta))
                back = cache.get(key)
                if isinstance(r, Exception):
                    good = same(back, start)
                    want = start
                else:
                    want = start + delta
                    good = same(r, want) and same(back, want)
                if not good:
                    res.violation('%s(%r) on the stored number %r gave %r; the key now holds %r, expected %r' % (
                        op, abs(delta), start, r, back, want), {'config': cfg_label, 'start': start, 'delta': delta})
                cache.pop(key)
        # ---- streams
        if True:
            for size in [0, 1, max(T - 1, 0), T, T + 1] + ([2**22 - 1, 2**22, 2**22 + 1] if budget > 150 and T == 16 else []):
                data = bytes((i * 7 + size) % 251 for i in range(min(size, 4096))) * (size // 4096 + 1)
                data = data[:size]
                key = 's%d' % size
                path = gen.pick(rng, ['set', 'add', 'push'] if not json_only else ['set', 'add'])
                # the stream may hand out less than it is asked for (a pipe, a socket, a decompressor do)
                short = rng.random() < 0.5
                stream = ShortReads(data, rng) if short else io.BytesIO(data)
                res.count('streams_with_short_reads' if short else 'streams_reading_fully')
                if path == 'push':
                    key = cache.push(stream, read=True, prefix='s')
                else:
                    getattr(cache, path)(key, stream, read=True)
                res.count('streams')
                res.count('mode_binary_file')
                res.seen('cells', ('stream', size, path))
                if not json_only:
                    case.judge('stream', path + '(read=True)', 'get', data, cache.get(key), 'binary_file')
                kind, got = read_handle(cache.get(key, read=True))
                case.judge('stream', path + '(read=True)', 'get(read=True) ' + kind, data, got, 'binary_file')
                kind, got = read_handle(cache.read(key))
                case.judge('stream', path + '(read=True)', 'read ' + kind, data, got, 'binary_file')
                if not json_only:
                    case.judge('stream', path + '(read=True)', 'pop', data, cache.pop(key), 'binary_file')
                else:
                    cache.delete(key)
        if len(cache) != 0:
            res.violation('cache not empty after popping everything: %d left' % len(cache), {'config': cfg_label})
    finally:
        obs.close()
        cache.close()
        twin.close()
        sc.drop(d)


class AbandonedBlock(Exception):
    pass


class ShortReads:
    """A binary stream whose read(n) returns between 1 and n bytes until the data is exhausted."""

    def __init__(self, data, rng):
        self.data, self.pos, self.rng = data, 0, rng

    def read(self, n=-1):
        left = len(self.data) - self.pos
        if n is None or n < 0:
            n = left
        n = min(n, left)
        if n > 1:
            n = self.rng.choice([1, n // 2, n - 1, n, n, max(1, n // 3)])
        out = self.data[self.pos:self.pos + n]
        self.pos += n
        return out


def run_containers(dc, sc, res, rng, T, proto):
    """Deque / Index / FanoutCache element access."""
    cfg_label = {'T': T, 'protocol': proto, 'disk': 'Disk', 'containers': True}
    case = Case(res, cfg_label, signature)
    vals = list(values(rng, T, False))
    rng.shuffle(vals)
    vals = vals[:60]
    d1, d2, d3 = sc.new(), sc.new(), sc.new()
    c1 = dc.Cache(d1, disk_min_file_size=T, disk_pickle_protocol=proto, eviction_policy='none')
    c2 = dc.Cache(d2, disk_min_file_size=T, disk_pickle_protocol=proto, eviction_policy='none')
    dq = dc.Deque.fromcache(c1)
    ix = dc.Index.fromcache(c2)
    fc = dc.FanoutCache(d3, shards=3, disk_min_file_size=T, disk_pickle_protocol=proto)
    try:
        for i, (cls, v) in enumerate(vals):
            if 'surrogate' in cls:
                continue
            # Deque
            how = i % 3
            if how == 0:
                dq.append(v)
                pos = -1
            elif how == 1:
                dq.appendleft(v)
                pos = 0
            else:
                dq.append('placeholder')
                dq[-1] = v
                pos = -1
            res.count('deque_roundtrips')
            res.seen('cells', (cls, 'deque', how))
            case.judge(cls, 'Deque.%s' % ['append', 'appendleft', 'setitem'][how], 'Deque[i]', v, dq[pos], 'deque')
            case.judge(cls, 'Deque', 'peek', v, dq.peek() if pos == -1 else dq.peekleft(), 'deque')
            lst = list(dq)
            case.judge(cls, 'Deque', 'iteration', v, lst[pos], 'deque')
            case.judge(cls, 'Deque', 'reversed', v, list(reversed(dq))[-1 - pos if pos == 0 else 0], 'deque')
            if i % 4 == 0:
                case.judge(cls, 'Deque', 'pop', v, dq.pop() if pos == -1 else dq.popleft(), 'deque')
            # Index
            key = 'i%d' % i
            how = i % 3
            if how == 0:
                ix[key] = v
            elif how == 1:
                got = ix.setdefault(key, v)
                case.judge(cls, 'Index.setdefault', 'setdefault result', v, got, 'index')
            else:
                ix.update({key: v})
            res.count('index_roundtrips')
            res.seen('cells', (cls, 'index', how))
            case.judge(cls, 'Index', 'Index[k]', v, ix[key], 'index')
            case.judge(cls, 'Index', 'values()', v, list(ix.values())[-1], 'index')
            case.judge(cls, 'Index', 'items()', v, list(ix.items())[-1][1], 'index')
            case.judge(cls, 'Index', 'peekitem', v, ix.peekitem()[1], 'index')
            if i % 2:
                case.judge(cls, 'Index', 'pop', v, ix.pop(key), 'index')
            else:
                case.judge(cls, 'Index', 'popitem', v, ix.popitem()[1], 'index')
            # FanoutCache
            fc.set(key, v)
            res.count('fanout_roundtrips')
            res.seen('cells', (cls, 'fanout'))
            case.judge(cls, 'FanoutCache.set', 'get', v, fc.get(key), 'fanout')
            case.judge(cls, 'FanoutCache.set', 'getitem', v, fc[key], 'fanout')
            kind, got = read_handle(fc.read(key))
            case.judge(cls, 'FanoutCache.set', 'read ' + kind, v, got, 'fanout')
            case.judge(cls, 'FanoutCache.set', 'pop', v, fc.pop(key), 'fanout')
    finally:
        c1.close()
        c2.close()
        fc.close()
        for d in (d1, d2, d3):
            sc.drop(d)


class FlakyReader:
    """Binary stream served in small chunks; raises OSError once at the k-th read, then carries on."""

    def __init__(self, data, chunk, fail_at):
        self.data = data
        self.pos = 0
        self.chunk = chunk
        self.reads = 0
        self.fail_at = fail_at

    def read(self, size=-1):
        self.reads += 1
        if self.reads == self.fail_at:
            raise OSError(5, 'transient read error (injected)')
        out = self.data[self.pos:self.pos + self.chunk]
        self.pos += len(out)
        return out


def fault_roundtrips(dc, sc, res, rng, T):
    """"A value that cannot be stored is rejected with an exception, never silently altered": one transient fault
    (OSError at the n-th value-file write / close, or at the k-th read of the source stream) is injected into the
    store of a file-backed value.  If the store raises, the key must show its previous state; if it returns, the
    value must round-trip through every accessor."""
    from .. import fault
    d = sc.new()
    cache = dc.Cache(d, disk_min_file_size=T)
    probe.watch(d)
    lines = max(4, T // 8)
    values = [
        ('bytes_multiline', b''.join(b'line-%05d\n' % i for i in range(lines))),
        ('text_multiline', ''.join('zeile-%05d\r\n' % i for i in range(lines))),
        ('pickle_file', ['P' * (T + 100), list(range(50))]),
        ('bytes_oneline', b'B' * (T + 50)),
    ]
    case = Case(res, {'T': T, 'fault_tier': True}, signature)
    try:
        n = 0
        for cls, v in values:
            for prev in ('absent', 'present'):
                for how in ('set', 'add', 'push'):
                    if how != 'set' and prev == 'present':
                        continue
                    # count the write gates of this store
                    ctrl = fault.FailAt(None, kinds=('pre:fwrite', 'pre:fclose'))
                    probe.set_controller(ctrl)
                    cache.set('dry', v)
                    probe.set_controller(None)
                    cache.delete('dry')
                    gates = len(ctrl.labels)
                    for g in sorted({1, 2, max(1, gates // 2), gates}):
                        n += 1
                        key = 'f%d' % n
                        if prev == 'present':
                            cache.set(key, 'old-value')
                        ctrl = fault.FailAt(g, kinds=('pre:fwrite', 'pre:fclose'))
                        probe.set_controller(ctrl)
                        try:
                            if how == 'set':
                                cache.set(key, v)
                            elif how == 'add':
                                cache.add(key, v)
                            else:
                                key = cache.push(v, prefix='fq')
                            outcome = 'stored'
                        except Exception as exc:      # noqa: BLE001
                            outcome = type(exc).__name__
                        probe.set_controller(None)
                        res.count('fault_injected_stores')
                        res.count('evaluations')
                        res.seen('cells', ('fault', cls, how, prev, outcome == 'stored', ctrl.fired))
                        judge_after_fault(cache, res, case, cls, how, key, v, prev, outcome, 'OSError at %s #%d' % (ctrl.fired, g))
        # transient read errors of the source stream
        data = bytes((i * 31) % 251 for i in range(5000))
        for fail_at in (1, 2, 3, 5, 6):
            for how in ('set', 'add'):
                n += 1
                key = 's%d' % n
                try:
                    getattr(cache, how)(key, FlakyReader(data, 1000, fail_at), read=True)
                    outcome = 'stored'
                except Exception as exc:      # noqa: BLE001
                    outcome = type(exc).__name__
                res.count('fault_injected_stores')
                res.count('evaluations')
                res.seen('cells', ('fault', 'stream', how, fail_at, outcome == 'stored'))
                judge_after_fault(cache, res, case, 'stream', how + '(read=True)', key, data, 'absent', outcome,
                                  'OSError at read #%d of the source stream' % fail_at)
    finally:
        probe.set_controller(None)
        cache.close()
        sc.drop(d)


def judge_after_fault(cache, res, case, cls, how, key, v, prev, outcome, fault_desc):
    if outcome == 'stored':
        for acc, got in (('get', cache.get(key)), ('getitem', cache[key]), ('pop', cache.pop(key))):
            try:
                ok = case.judge(cls, '%s with %s' % (how, fault_desc), acc, v, got, 'file')
            except Exception:      # noqa: BLE001
                ok = False
            if not ok:
                return
    else:
        try:
            now = cache.get(key, 'ABSENT')
        except Exception as exc:       # noqa: BLE001
            res.violation('after a store rejected with %s (%s) the key cannot be read: %s' % (outcome, fault_desc, type(exc).__name__),
                          {'class': cls, 'store_path': how})
            return
        want = 'old-value' if prev == 'present' else 'ABSENT'
        if how == 'push':
            return
        if now != want:
            res.violation('store of a %s value via %s was rejected with %s (%s) but the key now reads %s, before it was %s' % (
                cls, how, outcome, fault_desc, describe(now), want), {'class': cls, 'store_path': how, 'fault': fault_desc})


def relocation(dc, sc, res, rng, T):
    """The same values through a cache whose directory is given as a relative path, and after the closed directory was
    renamed and copied elsewhere: what is stored does not depend on what the directory is called."""
    import os
    import shutil
    cfg_label = {'T': T, 'disk': 'Disk', 'relocation': True}
    case = Case(res, cfg_label, signature)
    vals = [(c, v) for c, v in values(rng, T, False) if 'surrogate' not in c]
    rng.shuffle(vals)
    vals = vals[:45]
    base = sc.new()
    os.makedirs(base)
    old_cwd = os.getcwd()
    try:
        os.chdir(base)
        rel = os.path.join('caches', 'rel')
        cache = dc.Cache(rel, disk_min_file_size=T)
        dq = dc.Deque(directory=os.path.join('caches', 'dq'))
        dq.cache.reset('disk_min_file_size', T)
        for i, (cls, v) in enumerate(vals):
            cache.set('k%d' % i, v)
            dq.append(v)
            case.judge(cls, 'set(relative directory)', 'get', v, cache.get('k%d' % i), 'any')
            case.judge(cls, 'Deque.append(relative directory)', 'deque[-1]', v, dq[-1], 'any')
            res.count('relative_directory_roundtrips')
        cache.close()
        dq.cache.close()
        os.chdir(old_cwd)
        moved = os.path.join(base, 'moved-cache')
        os.rename(os.path.join(base, 'caches', 'rel'), moved)
        copied = os.path.join(base, 'copied-deque')
        shutil.copytree(os.path.join(base, 'caches', 'dq'), copied)
        again = dc.Cache(moved)
        dq2 = dc.Deque(directory=copied)
        try:
            for i, (cls, v) in enumerate(vals):
                case.judge(cls, 'set, close, rename directory, reopen', 'get', v, again.get('k%d' % i, '<MISSING>'), 'any')
                res.count('relocated_directory_roundtrips')
            stored = list(dq2)
            for (cls, v), got in zip(vals, stored + ['<MISSING>'] * (len(vals) - len(stored))):
                case.judge(cls, 'Deque.append, close, copy directory, reopen', 'iteration', v, got, 'any')
        finally:
            again.close()
            dq2.cache.close()
    finally:
        os.chdir(old_cwd)
        sc.drop(base)


def name_collisions(dc, sc, res, rng, T):
    """Two values whose files get the same name (a Disk subclass using the documented filename() hook with few names;
    with the stock layout a repeated 128-bit draw): the second store must either be refused loudly and change nothing,
    or leave every other key's value intact - a store never rewrites a file another row refers to (seeded/C01-11)."""
    import hashlib
    import io
    import os

    class FewNames(dc.Disk):
        def filename(self, key=dc.UNKNOWN, value=dc.UNKNOWN):
            name = 'v%d.val' % (int(hashlib.md5(repr(key).encode()).hexdigest(), 16) % 6)
            return name, os.path.join(self._directory, name)

    cfg_label = {'T': T, 'disk': 'Disk subclass with six file names'}
    case = Case(res, cfg_label, signature)
    d = sc.new()
    cache = dc.Cache(d, disk=FewNames, disk_min_file_size=T)
    pad = max(T, 8) + 8
    model = {}
    keys = ['n%d' % i for i in range(14)]
    try:
        for step in range(120):
            k = rng.choice(keys)
            r = rng.random()
            if r < 0.6:
                flavour = rng.randrange(4)
                tag = ('%s-%d;' % (k, step))
                text = tag * (pad // len(tag) + 1)
                v = [text, text.encode(), {'pickled': text}, text.encode()][flavour]
                try:
                    if flavour == 3:
                        cache.set(k, io.BytesIO(v), read=True)
                    else:
                        cache.set(k, v)
                except OSError:
                    res.count('stores_refused_for_a_file_name_in_use')
                else:
                    model[k] = v
                    res.count('stores_accepted_beside_colliding_names')
            elif r < 0.8:
                got = cache.pop(k, '<MISSING>')
                want = model.pop(k, '<MISSING>')
                case.judge('colliding file names', 'set under a Disk with six file names', 'pop', want, got, 'any')
            else:
                cache.delete(k)
                model.pop(k, None)
            for kk in keys:
                case.judge('colliding file names', 'set under a Disk with six file names; then %s of %r' % (
                    'a store' if r < 0.6 else 'a removal', k), 'get', model.get(kk, '<MISSING>'),
                    cache.get(kk, '<MISSING>'), 'any')
            if res.new_violations() > 3:
                return
    finally:
        cache.close()
        sc.drop(d)


def run_shard(tier, seed, shard, nshards, res):
    dc = common.use_repo()
    probe.install()
    combos = []
    for T in (0, 1, 16, 32768):
        for proto in range(0, 6):
            combos.append((T, proto, 'Disk', None))
        for level in (0, 1, 9):
            combos.append((T, 5, 'JSONDisk', level))
    with common.Scratch() as sc:
        for i, (T, proto, disk, level) in enumerate(combos):
            if i % nshards != shard:
                continue
            for rnd in range(1 if tier == 'quick' else 6):
                rng = common.rng_for(seed, 'c01', i, rnd)
                budget = 400
                if T == 32768 and tier == 'quick':
                    budget = 90
                run_config(dc, sc, res, rng, T, proto, disk, level, budget)
        rng = common.rng_for(seed, 'c01c', shard)
        T = [0, 1, 16, 32768][shard % 4]
        run_containers(dc, sc, res, rng, T, shard % 6)
        fault_roundtrips(dc, sc, res, rng, [64, 16, 1000, 32768][shard % 4])
        relocation(dc, sc, res, rng, [0, 1, 100, 32768][shard % 4])
        name_collisions(dc, sc, res, rng, [0, 16, 100, 4096][shard % 4])
