"""C16 - memoized functions return what the function returns and never share entries."""

import itertools

from .. import common, gen, probe

PROP = 'C16'
LEVEL = 'exploration'
RULE = ('a variadic probe function returns a token that encodes exactly what memoization is allowed to distinguish '
        '(positional vs keyword binding, values up to ==, types when typed, minus ignored arguments) and counts its '
        'executions. ALL signatures with <= 2 positionals (plus every (x, None, y) 3-positional pattern) and kwargs '
        'subset of {a, b} over the alphabet {None, "a", "b", 1, 1.0, True, ("a", None)} are called one after another '
        'on one cache, so any two signatures that share an entry make the later call return the wrong token; '
        'independently the serialized cache keys of signatures with different tokens must differ; repeats must not '
        're-execute; x typed x ignore in {(), {0}, {"a"}, {0,"a"}} x name given/derived, for Cache.memoize, '
        'FanoutCache.memoize, Index.memoize, DjangoCache.memoize (versions) and memoize_stampede; plus expiry under the '
        'virtual clock, expire=0, falsy results, derived-name separation. evaluations = wrapper calls judged; '
        'distinct_nontrivial = distinct (decorator, typed, ignore, name mode) configurations x signature classes')
DISTINCT = ('config_cells',)
REQUIRED = ('wrapper_calls', 'signatures', 'repeat_calls_served_from_cache', 'key_pairs_compared', 'expiry_cases',
            'expire_zero_cases', 'falsy_results', 'decorator_cache', 'decorator_fanout', 'decorator_index',
            'decorator_django', 'decorator_stampede', 'derived_name_cases', 'contended_first_calls',
            'decorator_objects_reused', 'stacked_memoizations', 'repeats_with_keywords_reordered', 'failing_function_cases', 'calls_beside_an_early_recomputation',
            'decorator_options_passed_by_position', 'colliding_keyword_names', 'recomputed_entries_inspected')
ASSUMPTIONS = ('two calls are "the same arguments" when positional/keyword binding matches and values are equal under == '
               '(and have equal types when typed); ignored positions/names are removed first',
               'memoize_stampede: the probe runs in ~0 virtual time so early recomputation has probability ~0')

ALPHA = [None, 'a', 'b', 1, 1.0, True, ('a', None)]


def plan(tier):
    return {'nshards': 16 if tier == 'quick' else 16, 'timeout': 900 if tier == 'quick' else 3600, 'exhaustive': True}


def signatures():
    sigs = []
    pos = [()] + [(x,) for x in ALPHA] + [(x, y) for x in ALPHA for y in ALPHA]
    # 3 positionals with a None among the first two (the separator the key format uses is a bare None)
    pos += [(x, None, y) for x in ALPHA for y in ALPHA]
    pos += [(None, x, y) for x in ALPHA for y in ALPHA if x is not None]
    kws = [{}] + [{'a': x} for x in ALPHA] + [{'b': x} for x in ALPHA] + [{'a': x, 'b': y} for x in ALPHA for y in ALPHA]
    for p in pos:
        for k in kws:
            sigs.append((p, k))
    return sigs


def canon_value(v, typed):
    if isinstance(v, tuple):
        return tuple(canon_value(x, typed) for x in v)
    if typed:
        return (type(v).__name__, v)
    if isinstance(v, (bool, int, float)):
        return ('num', float(v))      # 1 == 1.0 == True
    return ('val', v)


def token(args, kwargs, typed, ignore):
    a = tuple(canon_value(v, typed) for i, v in enumerate(args) if i not in ignore)
    k = tuple(sorted((n, canon_value(v, typed)) for n, v in kwargs.items() if n not in ignore))
    return ('TOKEN', a, k)


class Probe:
    def __init__(self, typed, ignore):
        self.typed = typed
        self.ignore = ignore
        self.execs = 0

    def make(self, qual='probe_f'):
        outer = self

        def probe_f(*args, **kwargs):
            outer.execs += 1
            return token(args, kwargs, outer.typed, outer.ignore)
        probe_f.__qualname__ = qual
        return probe_f


def released_key(sig, typed, ignore):
    """The released key format, written out independently: base + positionals + (None,) + sorted keyword
    items (+ types when typed), after dropping ignored positions/names."""
    args, kwargs = sig
    a = tuple(v for i, v in enumerate(args) if i not in ignore)
    key = a + (None,)
    items = sorted((n, v) for n, v in kwargs.items() if n not in ignore)
    for n, v in items:
        key += (n, v)
    if typed:
        key += tuple(type(v) for v in a) + tuple(type(v) for _, v in items)
    return key


def classify(sig_a, sig_b, typed=False, ignore=()):
    """K3 is the ambiguity of the RELEASED key format: a positional None can be read as the separator.  A
    collision is classified as K3 only if the two signatures already map to one key under that format (compared
    type-sensitively, as pickled keys are) and one of them has a positional None; any other collision is new."""
    if sig_a is None or sig_b is None:
        return None
    from ..observe import ident
    if ident(released_key(sig_a, typed, ignore)) != ident(released_key(sig_b, typed, ignore)):
        return None
    for p, k in (sig_a, sig_b):
        if any(x is None for x in p):
            return 'memoize-positional-none-separator'
    return None


def ser(put):
    k, raw = put
    return (bytes(k) if isinstance(k, (bytes, memoryview)) else k, raw)


# documented parameter orders of the decorators (after the leading cache / expire arguments); a share of the decorator
# calls passes a prefix of the given options by position
import random as _random
_SPELL = _random.Random(0x16)
DECORATOR_ORDERS = {
    'cache': [('name', None), ('typed', False), ('expire', None), ('tag', None), ('ignore', ())],
    'fanout': [('name', None), ('typed', False), ('expire', None), ('tag', None), ('ignore', ())],
    'index': [('name', None), ('typed', False), ('ignore', ())],
    'stampede': [('name', None), ('typed', False), ('tag', None), ('beta', 1), ('ignore', ())],
}
POSITIONAL_DECORATOR_CALLS = [0]


def spelled_options(kind, o):
    order = DECORATOR_ORDERS.get(kind)
    if not order or not o or _SPELL.random() < 0.5:
        return (), o
    present = [i for i, (n, _) in enumerate(order) if n in o]
    if not present:
        return (), o
    upto = _SPELL.randrange(0, present[-1] + 2)
    o = dict(o)
    pos = tuple(o.pop(n) if n in o else dflt for n, dflt in order[:upto])
    if pos:
        POSITIONAL_DECORATOR_CALLS[0] += 1
    return pos, o


def build(dc, sc, kind, clock):
    """Return (decorate(func, **opts), cache-like, closer, key_bytes(key)).  decorate.many(funcs, **opts) applies ONE
    decorator object (one memoize(...) call) to several functions."""
    d = sc.new()
    if kind == 'cache':
        c = dc.Cache(d)

        def factory(**o):
            pos, o = spelled_options('cache', o)
            return c.memoize(*pos, **o)
        cache, closer, kb = c, c.close, (lambda key: ser(c.disk.put(key)))
    elif kind == 'fanout':
        c = dc.FanoutCache(d, shards=3)

        def factory(**o):
            pos, o = spelled_options('fanout', o)
            return c.memoize(*pos, **o)
        cache, closer, kb = c, c.close, (lambda key: ser(c.disk.put(key)))
    elif kind == 'index':
        ix = dc.Index(d)

        def factory(**o):
            o.pop('expire', None)
            pos, o = spelled_options('index', o)
            return ix.memoize(*pos, **o)
        cache, closer, kb = ix.cache, ix.cache.close, (lambda key: ser(ix.cache.disk.put(key)))
    elif kind == 'django':
        from diskcache import DjangoCache
        dj = DjangoCache(d, {'SHARDS': 2})

        def factory(**o):
            if 'expire' in o:
                o['timeout'] = o.pop('expire')
            return dj.memoize(**o)
        cache, closer, kb = dj._cache, dj.close, (lambda key: ser(dj._cache.disk.put(dj.make_key(key))))
    else:
        c = dc.Cache(d)

        def factory(**o):
            expire = o.pop('expire', 1000)
            pos, o = spelled_options('stampede', o)
            return dc.memoize_stampede(c, expire, *pos, **o)
        cache, closer, kb = c, c.close, (lambda key: ser(c.disk.put(key)))

    def deco(f, **o):
        return factory(**o)(f)

    def many(funcs, **o):
        one_decorator = factory(**o)
        return [one_decorator(f) for f in funcs]
    deco.many = many
    return deco, cache, closer, kb, d


def sweep(dc, sc, res, kind, typed, ignore, named, sigs, label):
    clock = probe.set_clock(probe.VClock())
    deco, cache, closer, key_bytes, d = build(dc, sc, kind, clock)
    p = Probe(typed, ignore)
    f = p.make()
    opts = {'typed': typed, 'ignore': ignore}
    given = ['given-name', '', 'given-name', '0'][(len(label) + len(sigs)) % 4] if named else None
    if named:
        opts['name'] = given           # any text is a legal name, the empty one too
    if kind == 'django':
        opts['version'] = 2
    w = deco(f, **opts)
    seen_tokens = {}      # token -> first signature
    all_sigs = {}         # token -> every signature seen with it
    seen_keys = {}        # serialized key -> (token, signature)
    try:
        for args, kwargs in sigs:
            want = token(args, kwargs, typed, ignore)
            res.seen('config_cells', (kind, typed, tuple(sorted(map(str, ignore))), named, len(args), tuple(sorted(kwargs))))
            before = p.execs
            try:
                got = w(*args, **kwargs)
            except Exception as exc:       # noqa: BLE001
                res.violation('%s.memoize wrapper%r%r raised %s: %s' % (kind, args, kwargs, type(exc).__name__, exc),
                              {'label': label, 'typed': typed, 'named': named})
                break
            res.count('wrapper_calls')
            res.count('evaluations')
            executed = p.execs - before
            if got != want:
                other = seen_tokens.get(got)
                # several earlier signatures may own that token (1 and 1.0 are one token when untyped): the entry
                # that was hit is the one whose released key equals this call's
                sig = None
                for cand in all_sigs.get(got, ()):
                    sig = classify((args, kwargs), cand, typed, ignore)
                    if sig:
                        other = cand
                        break
                res.violation('%s.memoize wrapper%r%r returned %r, the function returns %r (entry shared with call %r)' % (
                    kind, args, kwargs, got, want, other),
                    {'label': label, 'typed': typed, 'ignore': sorted(map(str, ignore)), 'named': named,
                     'call': [args, kwargs], 'collides_with': other}, signature=sig)
                continue
            if want in seen_tokens and executed:
                # same distinguishable arguments called before: must be served from the cache. Signatures equal only up
                # to == (1 vs 1.0) may legitimately be separate entries, so require it only for identical signatures.
                if repr(seen_tokens[want]) == repr((args, kwargs)):
                    res.violation('repeat of %r%r executed the function again' % (args, kwargs), {'label': label})
            seen_tokens.setdefault(want, (args, kwargs))
            all_sigs.setdefault(want, []).append((args, kwargs))
            kb = key_bytes(w.__cache_key__(*args, **kwargs))
            res.count('key_pairs_compared', len(seen_keys))
            prev = seen_keys.get(kb)
            if prev is not None and prev[0] != want:
                res.violation('signatures %r and %r%r have one serialized cache key but must not share an entry' % (
                    prev[1], args, kwargs), {'label': label, 'typed': typed, 'ignore': sorted(map(str, ignore))},
                    signature=classify((args, kwargs), prev[1], typed, ignore))
            seen_keys.setdefault(kb, (want, (args, kwargs)))
        res.count('signatures', len(sigs))
        # identical repeats are served from the cache
        execs = p.execs
        sample = sigs[::max(1, len(sigs) // 150)]
        for args, kwargs in sample:
            got = w(*args, **kwargs)
            res.count('wrapper_calls')
            res.count('evaluations')
        if p.execs != execs:
            # find which
            res.violation('%d of %d repeated calls executed the function again (typed=%r ignore=%r %s)' % (
                p.execs - execs, len(sample), typed, sorted(map(str, ignore)), kind), {'label': label})
        else:
            res.count('repeat_calls_served_from_cache', len(sample))
        # the same call with its keyword arguments written in another order is the same call
        execs = p.execs
        two = [sg for sg in sigs if len(sg[1]) > 1]
        sample = two[::max(1, len(two) // 150)]
        for args, kwargs in sample:
            w(*args, **dict(reversed(list(kwargs.items()))))
            res.count('wrapper_calls')
            res.count('evaluations')
        if p.execs != execs:
            res.violation('%d of %d calls repeated with their keyword arguments in another order executed the function again '
                          '(typed=%r ignore=%r %s)' % (p.execs - execs, len(sample), typed, sorted(map(str, ignore)), kind),
                          {'label': label})
        else:
            res.count('repeats_with_keywords_reordered', len(sample))
        # calls differing only in ignored arguments share the entry
        if 0 in ignore:
            e = p.execs
            w('zzz-never-seen', 'a')
            w('yyy-never-seen', 'a')
            if p.execs - e > 1:
                res.violation('two calls differing only in ignored position 0 both executed', {'label': label})
        if kind != 'django':
            # the entries live under the given name, or under module.qualname of the function when none was given
            bases = {k[0] for k in cache if isinstance(k, tuple) and k}
            want = given if named else f.__module__ + '.' + f.__qualname__
            if bases != {want}:
                res.violation('memoized entries are stored under the name(s) %r, expected %r' % (sorted(map(repr, bases)), want),
                              {'label': label, 'named': named, 'name': given})
            res.count('entry_names_checked')
        res.count('decorator_' + kind)
        res.count('decorator_options_passed_by_position', POSITIONAL_DECORATOR_CALLS[0])
        POSITIONAL_DECORATOR_CALLS[0] = 0
        res.seen('config_cells', (kind, typed, tuple(sorted(map(str, ignore))), named))
        if len(res.samples) < 2:
            res.sample({'label': label, 'kind': kind, 'typed': typed, 'ignore': sorted(map(str, ignore)), 'named': named,
                        'signatures': len(sigs), 'executions': p.execs, 'first_signatures': sigs[60:66]})
    finally:
        closer()
        sc.drop(d)


class MemoizedFunctionFailed(Exception):
    pass


def stampede_recomputation(dc, sc, res, label):
    """memoize_stampede while an early recomputation is in flight: the hit that triggers it and every later call of the
    same arguments are served from the cache, and calls with OTHER arguments - among them the signatures that extend the
    recomputed one by None - have entries of their own: they run the function once and get its result."""
    import threading
    clock = probe.set_clock(probe.VClock())
    d = sc.new()
    cache = dc.Cache(d)
    try:
        for typed in (False, True):
            for first in ((1,), (), ('a',)):
                for fkw in ({}, {'b': 2}):
                    runs, release, in_flight = [], threading.Event(), threading.Event()

                    def slow(*args, **kwargs):
                        runs.append((args, kwargs))
                        if len(runs) == 2:              # the early recomputation (in its own thread)
                            in_flight.set()
                            release.wait(10)
                        clock.advance(0.5)                # the function takes half a (virtual) second
                        return ('slow', args, sorted(kwargs.items()))
                    slow.__qualname__ = 'slow_%s_%d_%d' % (typed, len(first), len(fkw))
                    w = dc.memoize_stampede(cache, expire=100, typed=typed, beta=1e15)(slow)
                    want = ('slow', first, sorted(fkw.items()))
                    wit = {'label': label, 'typed': typed, 'call': [first, fkw]}
                    r1 = w(*first, **fkw)
                    threads_before = set(threading.enumerate())
                    r2 = w(*first, **fkw)             # a hit; with this beta it also starts the early recomputation
                    recomputing = [t for t in threading.enumerate() if t not in threads_before]
                    if not in_flight.wait(10):
                        res.count('stampede_recomputations_not_started')
                        release.set()
                        continue
                    res.count('stampede_recomputations_in_flight')
                    res.count('evaluations')
                    try:
                        if r1 != want or r2 != want:
                            res.violation('memoize_stampede returned %r then %r, the function returns %r' % (r1, r2, want), wit)
                            continue
                        others = list(dict.fromkeys([first + (None,), first + (None, None), (None,) + first]))
                        for sig in others:
                            n0 = len(runs)
                            try:
                                got = ('ok', w(*sig, **fkw))
                            except Exception as exc:       # noqa: BLE001
                                got = ('raise', '%s: %s' % (type(exc).__name__, exc))
                            exp = ('slow', sig, sorted(fkw.items()))
                            if got != ('ok', exp) or len(runs) != n0 + 1:
                                res.violation('while the early recomputation of %r%r was in flight, the call %r%r gave %r '
                                              'and ran the function %d time(s); expected %r and one run' % (
                                                  first, fkw, sig, fkw, got, len(runs) - n0, exp), wit)
                                break
                            res.count('calls_beside_an_early_recomputation')
                    finally:
                        release.set()
                        for t in recomputing:
                            t.join(10)
                    # the entry written by the early recomputation lives as long as any other entry of the decorator
                    key = w.__cache_key__(*first, **fkw)
                    pair, expire_time = cache.get(key, default=None, expire_time=True)
                    left = None if expire_time is None else expire_time - clock.now_peek()
                    res.count('recomputed_entries_inspected')
                    if pair is None or left is None or not 50 < left <= 100.001:
                        res.violation('after the early recomputation of %r%r finished, its entry %s (the decorator was given '
                                      'expire=100)' % (first, fkw, 'is gone' if pair is None else 'expires in %r s' % (left,)), wit)
    finally:
        probe.set_clock(None)
        cache.close()
        sc.drop(d)


def extras(dc, sc, res, kind, label):
    """expiry, expire=0, falsy results, derived names."""
    clock = probe.set_clock(probe.VClock())
    deco, cache, closer, key_bytes, d = build(dc, sc, kind, clock)
    try:
        # (3) expiry
        if kind != 'index':
            p = Probe(False, ())
            w = deco(p.make('exp_f'), expire=gen.ttl_exact(5.5))
            w(1, a='x')
            clock.advance(2.0)
            w(1, a='x')
            if p.execs != 1:
                res.violation('%s: repeat within the expiry time executed again (%d executions)' % (kind, p.execs), {'label': label})
            clock.advance(10.0)
            w(1, a='x')
            res.count('expiry_cases')
            res.count('evaluations')
            if kind != 'stampede' and p.execs != 2:
                res.violation('%s: call after the expiry time was served from the cache (%d executions)' % (kind, p.execs),
                              {'label': label})
            if kind == 'stampede' and p.execs < 2:
                res.violation('stampede: call after expiry did not recompute', {'label': label})
        # (4) expire = 0 stores nothing
        if kind in ('cache', 'fanout', 'django'):
            p = Probe(False, ())
            n0 = len(cache)
            w = deco(p.make('zero_f'), expire=0)
            for _ in range(3):
                w('q')
            res.count('expire_zero_cases')
            res.count('evaluations')
            if p.execs != 3 or len(cache) != n0:
                res.violation('%s: expire=0 executed %d of 3 calls and changed the cache by %d entries' % (
                    kind, p.execs, len(cache) - n0), {'label': label})
        # (5) falsy results
        for val in (None, 0, '', False, [], 0.0):
            cnt = [0]

            def falsy(x, val=val, cnt=cnt):
                cnt[0] += 1
                return val
            falsy.__qualname__ = 'falsy_%r' % (val,)
            w = deco(falsy)
            r1, r2 = w(1), w(1)
            res.count('falsy_results')
            res.count('evaluations')
            if cnt[0] != 1 or r1 != val or r2 != val or type(r2) is not type(val):
                res.violation('%s: falsy result %r: executed %d times, returned %r then %r' % (kind, val, cnt[0], r1, r2),
                              {'label': label})

        # (5a) keyword arguments of the function that happen to be called like parameters of the decorators or of their
        # inner helpers are arguments like any other
        for kwname in ('typed', 'ignore', 'name', 'expire', 'tag', 'key', 'base', 'args', 'kwargs', 'func', 'cache',
                       'default', 'retry', 'timeout', 'version', 'beta'):
            for typed in (False, True):
                p = Probe(typed, ())
                w = deco(p.make('kwname_%s_%s' % (kwname, typed)), typed=typed)
                calls = [((7,), {kwname: 'x'}), ((7,), {kwname: 'y'}), ((7,), {}), ((), {kwname: 'x'}), ((7,), {kwname: None}),
                         ((7,), {kwname: True}), ((7,), {kwname: (0,)})]
                bad = None
                for args, kwargs in calls + calls:
                    try:
                        got = w(*args, **kwargs)
                    except Exception as exc:       # noqa: BLE001
                        got = '%s: %s' % (type(exc).__name__, exc)
                    if got != token(args, kwargs, typed, ()):
                        bad = (args, kwargs, got)
                        break
                res.count('colliding_keyword_names')
                res.count('evaluations')
                if bad or p.execs != len(calls):
                    res.violation('%s: a memoized function called with a keyword argument named %r: %s; %d executions for %d '
                                  'different calls made twice' % (kind, kwname, 'call %r%r returned %r' % bad if bad else
                                                                  'results right', p.execs, len(calls)),
                                  {'label': label, 'typed': typed, 'keyword': kwname})
        # (5b) a function that fails: the caller gets its exception, nothing is remembered for those arguments, and the
        # next call runs the function again - whose result is then remembered as usual
        for exc_type in (ValueError, KeyError, KeyboardInterrupt, MemoizedFunctionFailed):
            runs = []

            def flaky(x, runs=runs, exc_type=exc_type):
                runs.append(x)
                if len(runs) <= 2:
                    raise exc_type('failed on run %d' % len(runs))
                return ('flaky', x, len(runs))
            flaky.__qualname__ = 'flaky_%s' % exc_type.__name__
            w = deco(flaky)
            n0 = len(cache)
            outcomes = []
            for _ in range(4):
                try:
                    outcomes.append(('ok', w('arg')))
                except exc_type as exc:
                    outcomes.append(('raise', type(exc).__name__))
                if len(outcomes) == 2 and len(cache) != n0:
                    res.violation('%s: two failed calls of a memoized function left %d new entries in the cache' % (
                        kind, len(cache) - n0), {'label': label, 'exception': exc_type.__name__})
            res.count('failing_function_cases')
            res.count('evaluations')
            want = [('raise', exc_type.__name__)] * 2 + [('ok', ('flaky', 'arg', 3))] * 2
            if outcomes != want or len(runs) != 3:
                res.violation('%s: a memoized function that fails twice and then succeeds gave %r over four calls and ran %d '
                              'times; expected %r and 3 runs' % (kind, outcomes, len(runs), want),
                              {'label': label, 'exception': exc_type.__name__})

        # derived names: two different functions never share entries
        def scope1():
            def f(x):
                return ('scope1', x)
            return f

        def scope2():
            def f(x):
                return ('scope2', x)
            return f
        w1, w2 = deco(scope1()), deco(scope2())
        a, b = w1(5), w2(5)
        res.count('derived_name_cases')
        res.count('evaluations')
        if a != ('scope1', 5) or b != ('scope2', 5):
            res.violation('%s: two functions with derived names share an entry: %r %r' % (kind, a, b), {'label': label})
        # one decorator object applied to several functions: each keeps its own entries (the name is derived per function)
        def scope3():
            def g(x):
                return ('scope3', x)
            return g
        wa, wb, wc = deco.many([scope1(), scope2(), scope3()])
        ra, rb, rc = wa(6), wb(6), wc(6)
        res.count('decorator_objects_reused')
        res.count('evaluations')
        if (ra, rb, rc) != (('scope1', 6), ('scope2', 6), ('scope3', 6)):
            res.violation('%s: functions decorated with one decorator object share entries: %r %r %r' % (kind, ra, rb, rc),
                          {'label': label})
        # stacked memoization: a memoized function (or a functools.wraps wrapper around one) memoized again under another
        # name keeps a layer of its own - own key maker, own entries
        import functools
        calls = []

        def raw(x):
            calls.append(x)
            return x * 10
        inner = deco(raw, name='raw-layer')

        @functools.wraps(inner)
        def shifted(x):
            return inner(x) + 7
        outer = deco(shifted, name='shifted-layer')
        direct = deco(inner, name='direct-layer')
        got = (outer(3), inner(3), outer(5), inner(5), direct(3), direct(9), inner(9))
        res.count('stacked_memoizations')
        res.count('evaluations')
        if got != (37, 30, 57, 50, 30, 90, 90) or sorted(calls) != [3, 5, 9]:
            res.violation('%s: stacked memoized layers share entries: results %r (expected (37, 30, 57, 50, 30, 90, 90)), '
                          'function ran for %r' % (kind, got, calls), {'label': label})
        if kind in ('cache', 'fanout', 'index'):
            bases = (inner.__cache_key__(3)[0], outer.__cache_key__(3)[0], direct.__cache_key__(3)[0])
            if bases != ('raw-layer', 'shifted-layer', 'direct-layer'):
                res.violation('%s: the key makers of stacked layers answer with the names %r' % (kind, bases), {'label': label})
        # Django: versions separate entries
        if kind == 'django':
            from diskcache import DjangoCache  # noqa
    finally:
        closer()
        sc.drop(d)


def contended_store(dc, sc, res, kind, label):
    """The first call of a memoized function finds the cache locked by another connection; the lock goes away after the
    k-th failed attempt.  The call must still return the function's value, and a repeated call must be served from the
    cache (memoize stores with retry)."""
    import os
    from . import c14
    for k in (1, 3):
        d = sc.new()
        if kind == 'cache':
            obj = dc.Cache(d, timeout=0)
            deco, dirs = (lambda f: obj.memoize()(f)), [d]
        elif kind == 'fanout':
            obj = dc.FanoutCache(d, shards=2, timeout=0)
            deco, dirs = (lambda f: obj.memoize(typed=True)(f)), [os.path.join(d, '%03d' % i) for i in range(2)]
        elif kind == 'index':
            obj = dc.Index.fromcache(dc.Cache(d, timeout=0, eviction_policy='none'))
            deco, dirs = (lambda f: obj.memoize()(f)), [d]
        elif kind == 'django':
            from diskcache import DjangoCache
            obj = DjangoCache(d, {'SHARDS': 2, 'DATABASE_TIMEOUT': 0})
            deco, dirs = (lambda f: obj.memoize()(f)), [os.path.join(d, '%03d' % i) for i in range(2)]
        else:
            obj = dc.Cache(d, timeout=0)
            deco, dirs = (lambda f: dc.memoize_stampede(obj, 1000)(f)), [d]
        calls = []

        def slow_square(x, unit='m'):
            calls.append(x)
            return ('result', x * x, unit)
        wrapped = deco(slow_square)
        holder = c14.Holder(dirs)
        ctrl = c14.LockFault(holder, 'release_after', k)
        wit = {'label': label, 'kind': kind, 'lock_released_after_failed_attempts': k}
        try:
            holder.take()
            probe.set_controller(ctrl)
            try:
                got = ('ok', wrapped(7))
            except Exception as exc:      # noqa: BLE001
                got = ('raise', '%s: %s' % (type(exc).__name__, exc))
            probe.set_controller(None)
            holder.release()
            res.count('evaluations')
            res.count('contended_first_calls')
            if got != ('ok', ('result', 49, 'm')):
                res.violation('%s: the first call of a memoized function under a held lock gave %r, the function returns %r' % (
                    kind, got, ('result', 49, 'm')), wit)
                continue
            again = wrapped(7)
            if again != ('result', 49, 'm') or calls != [7]:
                res.violation('%s: the result computed under a held lock was not stored: a repeated call returned %r and the '
                              'function ran %d times' % (kind, again, len(calls)), dict(wit, failed_attempts_seen=ctrl.failed))
        finally:
            probe.set_controller(None)
            holder.close()
            try:
                (obj.cache if kind == 'index' else obj).close()
            except Exception:      # noqa: BLE001
                pass
            sc.drop(d)


def run_shard(tier, seed, shard, nshards, res):
    dc = common.use_repo()
    probe.install()
    sigs = signatures()
    combos = []
    for kind in ('cache', 'fanout', 'index', 'django', 'stampede'):
        for typed in (False, True):
            for ignore in ((), (0,), ('a',), (0, 'a')):
                for named in (False, True):
                    combos.append((kind, typed, frozenset(ignore), named))
    with common.Scratch() as sc:
        for i, (kind, typed, ignore, named) in enumerate(combos):
            if i % nshards != shard:
                continue
            use = sigs if (tier == 'thorough' or (i // nshards + seed) % 2 == 0) else sigs[(seed + i) % 3::3]
            sweep(dc, sc, res, kind, typed, ignore, named, use,
                  'c16 %s typed=%s ignore=%s named=%s' % (kind, typed, sorted(map(str, ignore)), named))
        for j, kind in enumerate(('cache', 'fanout', 'index', 'django', 'stampede')):
            if j % nshards == shard % 5:
                extras(dc, sc, res, kind, 'c16 extras %s' % kind)
                if kind == 'stampede':
                    stampede_recomputation(dc, sc, res, 'c16 early recomputation')
                contended_store(dc, sc, res, kind, 'c16 contended store %s' % kind)
