"""C13 - a sharded cache is observably one cache with a fixed key-to-shard mapping."""

import json
import os
import pickle
import subprocess

from .. import common, gen, observe, probe
from ..driver import CacheDriver, Mismatch
from ..model import Ambiguous
from ..observe import ident
from . import c03

PROP = 'C13'
LEVEL = 'exploration'
RULE = ('(a) the C03 history generator (minus queue/sorted-iteration calls FanoutCache does not offer) runs against '
        'FanoutCache(shards in {1,2,3,8,13}) with the UNSHARDED RefCache as oracle: results of every key-addressed call, '
        'totals of aggregate calls, iteration as a permutation with every key exactly once, volume() = sum over shards, '
        'statistics totals, per-shard size_limit; damaged files in one shard must produce exactly the corresponding '
        'check() warnings. (b) routing: a key pool written by one interpreter (PYTHONHASHSEED=a) must be found, in the '
        'same shard, by a fresh interpreter with another hash seed; Disk.hash over the pool must equal the routing '
        'recorded from the pinned tree (golden); keys the cache treats as equal must behave as one key. evaluations = '
        'calls judged + keys routed; distinct_nontrivial = distinct (operation, outcome, shard count) cells + distinct '
        '(key class, shard count, hash-seed pair) routing cells')
DISTINCT = ('cells', 'routing_cells')
REQUIRED = ('blocks_compared_with_unsharded', 'check_flag_cases', 'bulk_removals_while_shards_locked', 'histories_with_stored_pickle_protocol', 'calls_judged', 'histories', 'shard_counts_seen', 'keys_cross_process', 'golden_hashes_compared',
            'equal_key_pairs', 'check_damage_cases', 'aggregate_calls', 'partial_reopen_cases', 'handle_exchanges', 'skewed_culls', 'settings_reloaded_through_another_handle')
ASSUMPTIONS = ('iteration order over shards is shard-major by design: compared as a permutation',
               'golden routing was recorded from the pinned commit by tools/mkgolden.py')

SHARDS = [1, 2, 3, 8, 13]
FANOUT_OPS = {'set', 'setitem', 'add', 'get', 'getitem', 'read', 'contains', 'touch', 'incr', 'decr', 'pop', 'delete',
              'delitem', 'len', 'iter', 'reversed', 'expire', 'evict', 'clear', 'stats', 'cull', 'ADV', 'FREEZE'}


def plan(tier):
    return {'nshards': 16 if tier == 'quick' else 48, 'timeout': 900 if tier == 'quick' else 3600}


def history(dc, sc, res, rng, shards, cfg, label):
    d = sc.new()
    clock = probe.set_clock(probe.VClock())
    drv = CacheDriver(dc, d, cfg, kind='fanout', shards=shards, clock=clock)
    extra_handles = []
    try:
        steps = [s for s in c03.random_history(rng, cfg, rng.randrange(200, 500), wide=rng.random() < 0.4, aliases=False)   # equal int/float keys are exercised in (b): K2
                 if s[0] in FANOUT_OPS]
        for op, args, kw in steps:
            if op == 'ADV':
                clock.advance(args[0])
                continue
            if op == 'FREEZE':
                clock.frozen = args[0]
                if not args[0]:
                    clock.advance(gen.TICK)
                continue
            if rng.random() < 0.02:
                # the handle is exchanged for another one on the same directory: reopened with the same shard count,
                # unpickled, or copied; it must be the same cache with the same shards
                how = rng.randrange(3)
                old_handle = drv.real
                if how == 0:
                    new_handle = dc.FanoutCache(d, shards=shards)
                elif how == 1:
                    new_handle = pickle.loads(pickle.dumps(old_handle))
                else:
                    import copy
                    new_handle = copy.copy(old_handle)
                extra_handles.append(new_handle)
                res.count('handle_exchanges')
                if len(new_handle._shards) != shards or sorted(os.listdir(d)) != ['%03d' % i for i in range(shards)]:
                    raise Mismatch('a %s handle has %d shards (directories %r), the cache has %d' % (
                        ['reopened', 'unpickled', 'copied'][how], len(new_handle._shards), sorted(os.listdir(d)), shards),
                        drv.witness())
                drv.real = new_handle
            got = drv.step(op, *args, **kw)
            res.count('evaluations')
            res.count('calls_judged')
            if op in ('len', 'iter', 'reversed', 'expire', 'evict', 'clear', 'stats', 'cull'):
                res.count('aggregate_calls')
            res.seen('cells', (op, got[0] if got[0] == 'raise' else type(got[1]).__name__, shards))
        drv.step('len')
        drv.step('iter')
        drv.step('reversed')
        drv.readout()
        # volume covers every shard exactly once
        vol = drv.real.volume()
        exp = 0
        for o, sd in zip(drv.observers, drv.shard_dirs):
            con = o._connect()
            (pc,), = con.execute('PRAGMA page_count').fetchall()
            (ps,), = con.execute('PRAGMA page_size').fetchall()
            exp += pc * ps + sum(observe.list_files(sd)[0].values())
        if vol != exp:
            raise Mismatch('volume() = %d, sum over shards = %d' % (vol, exp), drv.witness())
        # per-shard limit
        for i, o in enumerate(drv.observers):
            sl = o.settings().get('size_limit')
            if sl != cfg.get('size_limit', 2**30) / shards:
                raise Mismatch('shard %d stores size_limit %r, expected total/shards = %r' % (
                    i, sl, cfg.get('size_limit', 2**30) / shards), drv.witness())
        res.count('histories')
        res.seen('shard_counts_seen', shards)
        if len(res.samples) < 2:
            res.sample({'label': label, 'shards': shards, 'config': cfg, 'first_calls': steps[:10]})
    except Ambiguous:
        res.count('ambiguous_histories_dropped')
    except Mismatch as m:
        res.violation(m.what, dict(m.witness, label=label))
    finally:
        for h in extra_handles:
            try:
                h.close()
            except Exception:      # noqa: BLE001
                pass
        drv.close()
        sc.drop(d)


def check_damage(dc, sc, res, rng, shards, label):
    d = sc.new()
    f = dc.FanoutCache(d, shards=shards, disk_min_file_size=16)
    try:
        for i in range(40):
            f.set('k%d' % i, 'v' * (20 + i))
        if f.check():
            res.violation('check() on an undamaged FanoutCache reports %r' % [str(w.message) for w in f.check()][:3], {'label': label})
            return
        target = rng.randrange(shards)
        sdir = os.path.join(d, '%03d' % target)
        files = sorted(observe.list_files(sdir)[0])
        if not files:
            return
        kind = gen.pick(rng, ['delete', 'truncate', 'unknown'])
        victim = os.path.join(sdir, gen.pick(rng, files))
        if kind == 'delete':
            os.remove(victim)
            expect = 'file not found'
        elif kind == 'truncate':
            with open(victim, 'r+b') as fh:
                fh.truncate(3)
            expect = 'wrong file size'
        else:
            victim = os.path.join(sdir, 'stray.bin')
            with open(victim, 'wb') as fh:
                fh.write(b'x')
            expect = 'unknown file'
        warns = [str(w.message) for w in f.check()]
        res.count('check_damage_cases')
        res.count('evaluations')
        hits = [w for w in warns if expect in w and os.path.basename(victim) in w]
        others = [w for w in warns if w not in hits and 'empty directory' not in w]
        if len(hits) != 1 or others:
            res.violation('damage "%s" in shard %d of %d: check() reported %r' % (kind, target, shards, warns[:4]),
                          {'label': label, 'victim': victim})
            return
        # the two flags of check() reach every shard as given: retry alone reports and changes nothing, fix repairs
        def files_now():
            return {i: sorted(observe.list_files(os.path.join(d, '%03d' % i))[0].items()) for i in range(shards)}
        before = files_now()
        again = [str(w.message) for w in f.check(retry=True)]
        if sorted(again) != sorted(warns) or files_now() != before:
            res.violation('check(retry=True) after damage "%s" in shard %d of %d reported %r (plain check: %r) and %s the files'
                          % (kind, target, shards, again[:4], warns[:4], 'changed' if files_now() != before else 'kept'),
                          {'label': label, 'victim': victim})
            return
        spelled = rng.randrange(3)
        fixed = [str(w.message) for w in (lambda: f.check(fix=True), lambda: f.check(True), lambda: f.check(True, False))[spelled]()]
        left = [str(w.message) for w in f.check()]
        res.count('check_flag_cases')
        if not [w for w in fixed if expect in w] or left:
            res.violation('after check(fix=True) (reported %r) on damage "%s" in shard %d of %d a plain check() still reports %r'
                          % (fixed[:4], kind, target, shards, left[:4]), {'label': label, 'victim': victim})
    finally:
        f.close()
        sc.drop(d)


# ---------------------------------------------------------------- routing
WRITER = r'''
import pickle, sys
sys.path.insert(0, %(verif)r)
from vf import common
dc = common.use_repo()
d, shards, pool = sys.argv[1], int(sys.argv[2]), sys.argv[3]
keys = pickle.load(open(pool, 'rb'))
f = dc.FanoutCache(d, shards=shards)
for i, k in enumerate(keys):
    f.set(k, i)
f.close()
'''

READER = r'''
import json, os, pickle, sys
sys.path.insert(0, %(verif)r)
from vf import common, observe
dc = common.use_repo()
d, shards, pool = sys.argv[1], int(sys.argv[2]), sys.argv[3]
keys = pickle.load(open(pool, 'rb'))
f = dc.FanoutCache(d, shards=shards)
disk = f.disk
out = []
holders = {}
for s in range(shards):
    o = observe.Observer(os.path.join(d, '%%03d' %% s))
    for r in o.rows():
        holders.setdefault(repr(observe.row_ident(r['key'], r['raw'])), []).append(s)
    o.close()
for i, k in enumerate(keys):
    out.append([f.get(k, 'MISSING'), k in f, holders.get(repr(observe.ident(k)), []), disk.hash(k) %% shards])
print(json.dumps(out, default=repr))
'''


def cross_process(dc, sc, res, rng, shards, seeds, label, keys=None):
    d = sc.new()
    pool = d + '.pool'
    keys = [k for k in c03_keys(rng)] if keys is None else list(keys)
    # values identify the LAST key stored under each identity
    expected = {}
    for i, k in enumerate(keys):
        expected[ident(k)] = i
    with open(pool, 'wb') as fh:
        pickle.dump(keys, fh)
    env = dict(os.environ, VF_REPO=common.REPO, PYTHONDONTWRITEBYTECODE='1')
    try:
        p = subprocess.run([common.PY, '-c', WRITER % {'verif': common.VERIF}, d, str(shards), pool],
                           env=dict(env, PYTHONHASHSEED=str(seeds[0])), capture_output=True, timeout=300)
        if p.returncode:
            res.violation('writer interpreter failed: %s' % p.stderr.decode()[-400:], {'label': label})
            return
        p = subprocess.run([common.PY, '-c', READER % {'verif': common.VERIF}, d, str(shards), pool],
                           env=dict(env, PYTHONHASHSEED=str(seeds[1])), capture_output=True, timeout=300)
        if p.returncode:
            res.violation('reader interpreter failed: %s' % p.stderr.decode()[-400:], {'label': label})
            return
        out = json.loads(p.stdout)
        for k, (val, present, holders, route) in zip(keys, out):
            res.count('keys_cross_process')
            res.count('evaluations')
            res.seen('routing_cells', (type(k).__name__, shards, tuple(seeds)))
            sig = classify_equal_keys(dc, keys, k)
            if not present or val == 'MISSING':
                res.violation('key %r written under PYTHONHASHSEED=%s is not found under PYTHONHASHSEED=%s (%d shards)' % (
                    k, seeds[0], seeds[1], shards), {'label': label, 'key': k, 'held_by_shards': holders,
                                                     'reader_routes_to': route}, signature=sig)
                continue
            if val != expected[ident(k)]:
                res.violation('key %r reads %r, the last value stored under its identity is %r' % (k, val, expected[ident(k)]),
                              {'label': label, 'key': k, 'held_by_shards': holders}, signature=sig)
                continue
            if holders != [route]:
                res.violation('key %r is held by shard(s) %r but this interpreter routes it to %d' % (k, holders, route),
                              {'label': label, 'key': k}, signature=sig)
    finally:
        sc.drop(d)
        if os.path.exists(pool):
            os.unlink(pool)


def c03_keys(rng):
    keys = list(gen.simple_keys()) + [1, 1.0, 0.0, 2**53, float(2**53), 7, 7.0, -3, -3.0]
    keys += ['s%d' % rng.randrange(10**6) for _ in range(20)] + [rng.randrange(-10**9, 10**9) for _ in range(20)]
    keys += [rng.random() * 100 for _ in range(10)] + [bytes([rng.randrange(256)] * 3) for _ in range(5)]
    rng.shuffle(keys)
    return keys


def released_hash(k):
    """Disk.hash of the released format for native numeric keys, written out independently: ints by value,
    floats by adler32 of their big-endian IEEE bytes."""
    import struct
    import zlib
    if type(k) is int:
        return k % 0xFFFFFFFF
    return zlib.adler32(struct.pack('!d', k)) & 0xFFFFFFFF


def classify_equal_keys(dc, keys, k):
    """Known finding K2: a numerically equal key of the other numeric type (int vs integral float, 0.0 vs -0.0)
    was also stored, and Disk.hash routes the two differently."""
    if type(k) not in (int, float) or (type(k) is int and not -2**63 <= k < 2**63):
        return None
    for other in keys:
        if other is k or type(other) not in (int, float) or (type(other) is int and not -2**63 <= other < 2**63):
            continue
        if ident(other) == ident(k) and (type(other) is not type(k) or repr(other) != repr(k)):
            if released_hash(other) != released_hash(k):      # inherent in the released routing function
                return 'equal-numeric-keys-hash-differently'
    return None


def golden_routing(dc, res):
    path = os.path.join(common.VERIF, 'golden', 'manifest.pkl')
    with open(path, 'rb') as fh:
        man = pickle.load(fh)
    for proto, table in man['put'].items():
        disk = dc.Disk('/nonexistent', min_file_size=man['T'], pickle_protocol=proto)
        for k, db_key, raw, h in table:
            res.count('golden_hashes_compared')
            res.count('evaluations')
            got = disk.hash(k)
            if got != h:
                res.violation('Disk.hash(%r) = %d at protocol %d, the released format routes it by %d' % (k, got, proto, h),
                              {'key': k, 'protocol': proto})
                return
    jd = dc.JSONDisk('/nonexistent', compress_level=1)
    for k, db_key, raw, h in man['json_put']:
        res.count('golden_hashes_compared')
        if jd.hash(k) != h:
            res.violation('JSONDisk.hash(%r) changed: %d, released %d' % (k, jd.hash(k), h), {'key': k})
            return
    # the golden FanoutCache: every key is found where the pinned tree put it
    import shutil
    import tempfile
    tmp = tempfile.mkdtemp(prefix='vf-golden-')
    try:
        d = os.path.join(tmp, 'fanout')
        shutil.copytree(os.path.join(common.VERIF, 'golden', 'fanout'), d)
        f = dc.FanoutCache(d, shards=man['fanout']['shards'])
        last = {}
        for k, v, _ in man['fanout']['content']:
            last[repr(k)] = v
        for k, holders in man['fanout']['where']:
            if len(holders) != 1:
                continue
            res.count('golden_hashes_compared')
            if not (k in f._shards[holders[0]]) or f.get(k, 'MISSING') == 'MISSING':
                res.violation('golden FanoutCache: key %r stored in shard %r by the pinned tree is not found' % (k, holders),
                              {'key': k}, signature=classify_equal_keys(dc, [x for x, _, _ in man['fanout']['content']], k))
        f.close()
    finally:
        shutil.rmtree(tmp, ignore_errors=True)


EQUAL_PAIRS = [(1, 1.0), (0, 0.0), (0.0, -0.0), (0, -0.0), (2**53, float(2**53)), (-7, -7.0), (10**15, 1e15), (3, 3.0),
               (2**62, float(2**62)), (255, 255.0)]


def equal_keys(dc, sc, res, shards, label):
    d = sc.new()
    f = dc.FanoutCache(d, shards=shards)
    try:
        for a, b in EQUAL_PAIRS:
            for k1, k2 in ((a, b), (b, a)):
                f.clear()
                f.set(k1, 'v')
                res.count('equal_key_pairs')
                res.count('evaluations')
                problems = []
                if f.get(k2) != 'v':
                    problems.append('get(%r) -> %r' % (k2, f.get(k2)))
                if k2 not in f:
                    problems.append('%r in cache -> False' % (k2,))
                if f.add(k2, 'w') is not False:
                    problems.append('add(%r) succeeded' % (k2,))
                f.delete(k2)
                if len(f) != 0:
                    problems.append('delete(%r) left %d item(s)' % (k2, len(f)))
                if problems:
                    sig = 'equal-numeric-keys-hash-differently' if released_hash(k1) % shards != released_hash(k2) % shards else None
                    res.violation('set(%r) then %s: the cache treats %r and %r as one key, the sharded cache does not (%d shards)'
                                  % (k1, '; '.join(problems), k1, k2, shards), {'label': label, 'k1': k1, 'k2': k2}, signature=sig)
    finally:
        f.close()
        sc.drop(d)


def partial_reopen(dc, sc, res, rng, shards, label):
    """Some shard directories are missing when the cache is reopened (creation interrupted, a damaged shard removed by
    an operator): the total size limit must still be divided among ALL shards, and data in the surviving shards must
    be found."""
    import shutil
    d = sc.new()
    f = dc.FanoutCache(d, shards=shards)
    for i in range(60):
        f.set('k%d' % i, i)
    f.close()
    victims = rng.sample(range(shards), rng.randrange(1, shards))
    survivors_keys = {}
    for s_ in range(shards):
        o = observe.Observer(os.path.join(d, '%03d' % s_))
        survivors_keys[s_] = [r['key'] for r in o.rows()]
        o.close()
    for v in victims:
        shutil.rmtree(os.path.join(d, '%03d' % v))
    f = dc.FanoutCache(d, shards=shards)
    try:
        res.count('partial_reopen_cases')
        res.count('evaluations')
        for s_ in range(shards):
            o = observe.Observer(os.path.join(d, '%03d' % s_))
            sl = o.settings().get('size_limit')
            o.close()
            if sl != 2**30 / shards:
                res.violation('after reopening a directory whose shards %r were missing, shard %d stores size_limit %r '
                              'instead of total/shards = %r' % (sorted(victims), s_, sl, 2**30 / shards), {'label': label})
                return
            if s_ not in victims:
                for k in survivors_keys[s_]:
                    if f.get(k, 'MISSING') == 'MISSING':
                        res.violation('key %r of surviving shard %d is not found after reopening' % (k, s_), {'label': label})
                        return
    finally:
        f.close()
        sc.drop(d)


def skewed_cull(dc, sc, res, rng, shards, label):
    """The size limit is divided among the shards: cull() visits every shard, also when only one of them is above its
    share and the total is far below the limit."""
    d = sc.new()
    share = 96 * 1024
    f = dc.FanoutCache(d, shards=shards, size_limit=share * shards, cull_limit=0, disk_min_file_size=64)
    try:
        target = rng.randrange(shards)
        keys = [k for k in range(4000) if f.disk.hash(k) % shards == target][:rng.randrange(14, 30)]
        for k in keys:
            f.set(k, 'v' * 8192)
        others = [k for k in range(4000, 4200) if f.disk.hash(k) % shards != target][:5]
        for k in others:
            f.set(k, 'small')
        vols = [sh.volume() for sh in f._shards]
        over = [i for i, v in enumerate(vols) if v > share]
        if over != [target] or f.volume() > share * shards:
            res.count('skewed_cull_setups_not_skewed')
            return
        before = len(f)
        removed = f.cull()
        after = [(sh.volume(), len(sh)) for sh in f._shards]
        res.count('evaluations')
        res.count('skewed_culls')
        res.seen('cells', ('skewed_cull', shards, target))
        wit = {'label': label, 'shards': shards, 'share_per_shard': share, 'volumes_before': vols, 'after': after,
               'cull_returned': removed}
        if any(v > share and n > 0 for v, n in after):
            res.violation('after cull() shard(s) %r are still above their share of the size limit (%d) although they hold items' % (
                [i for i, (v, n) in enumerate(after) if v > share and n > 0], share), wit)
            return
        if removed != before - len(f):
            res.violation('cull() returned %r, %d items disappeared' % (removed, before - len(f)), wit)
            return
        if any(k not in f for k in others):
            res.violation('cull() removed items of shards that were below their share', wit)
    finally:
        f.close()
        sc.drop(d)


def reload_settings(dc, sc, res, rng, shards, label):
    """A setting changed through one handle and reloaded (reset(key)) through another takes effect in every shard of the
    reloading handle, as it does for an unsharded cache."""
    d = sc.new()
    a = dc.FanoutCache(d, shards=shards)
    b = dc.FanoutCache(d, shards=shards)
    try:
        keys = list(range(40)) + ['s%d' % i for i in range(20)]
        for k in keys:
            a.set(k, k)
        wit = {'label': label, 'shards': shards}
        value = rng.choice([2**20, 2**22, 3 * 2**20]) * shards
        a.reset('size_limit', value)
        got = b.reset('size_limit')
        stale = [i for i, sh in enumerate(b._shards) if sh.size_limit != value]
        res.count('evaluations')
        res.count('settings_reloaded_through_another_handle')
        if got != value or stale:
            res.violation('reset(size_limit) reloaded %r through a second handle, but its shards %r still hold the old value '
                          '(new value %r)' % (got, stale, value), wit)
            return
        a.stats(enable=True)
        b.reset('statistics')
        for k in keys:
            b.get(k)
        for k in ('nope-1', 'nope-2', -77):
            b.get(k)
        hits, misses = a.stats()
        if (hits, misses) != (len(keys), 3):
            res.violation('after statistics were enabled through one handle and reloaded through another, %d lookups that '
                          'hit and 3 that missed were counted as %r' % (len(keys), (hits, misses)), wit)
            return
        a.reset('cull_limit', 0)
        b.reset('cull_limit')
        b.reset('size_limit', 1)
        n0 = len(b)
        for i in range(30):
            b.set('extra-%d' % i, i)
        if len(b) != n0 + 30:
            res.violation('cull_limit 0 was reloaded through a second handle, yet its writes evicted: %d items, expected %d' % (
                len(b), n0 + 30), wit)
    finally:
        a.close()
        b.close()
        sc.drop(d)


def bulk_while_shards_locked(dc, sc, res, rng, shards, label):
    """clear / evict / expire through the sharded handle while another connection holds the write lock of some shards
    for a few attempts: the call covers every shard all the same - once the locks are free nothing it was asked to
    remove is left, and the count it returns is the number of items removed."""
    from .c14 import Holder, LockFault
    d = sc.new()
    f = dc.FanoutCache(d, shards=shards, timeout=0, cull_limit=0)
    holder = None
    try:
        n = rng.randrange(20, 60)
        for i in range(n):
            f.set(('k', i) if i % 3 else 'k%d' % i, i, tag='bulk', expire=-1 if i % 2 else None)
        name = gen.pick(rng, ['clear', 'evict', 'expire'])
        want = n if name != 'expire' else n // 2
        locked = sorted(rng.sample(range(shards), rng.randrange(1, shards + 1)))
        holder = Holder([os.path.join(d, '%03d' % i) for i in locked])
        k = rng.randrange(1, 5)
        ctrl = LockFault(holder, 'release_after', k, 1)
        holder.take()
        probe.watch(d)
        probe.set_controller(ctrl)
        try:
            got = outcome_of(lambda: {'clear': f.clear, 'evict': lambda: f.evict('bulk'), 'expire': f.expire}[name]())
        finally:
            probe.set_controller(None)
        held = holder.held
        holder.release()
        left = len(f)
        res.count('evaluations')
        res.count('bulk_removals_while_shards_locked')
        wit = {'label': label, 'shards': shards, 'locked_shards': locked, 'failed_attempts_before_release': k, 'call': name}
        if held or got != ('ok', want) or left != n - want:
            res.violation('%s() through a %d-shard handle while shards %r were locked by another connection for %d attempts: '
                          'returned %r (lock still held: %s), %d of %d items left, expected %d removed' % (
                              name, shards, locked, k, got, held, left, n, want), wit)
    finally:
        if holder is not None:
            holder.close()
        f.close()
        sc.drop(d)


def blocks_like_unsharded(dc, sc, res, rng, shards, label):
    """A transact() block on the sharded cache does what it does on an unsharded one: left by an exception it changes
    nothing in any shard, completed it applies everything."""
    class Boom(Exception):
        pass
    d1, d2 = sc.new(), sc.new()
    f = dc.FanoutCache(d1, shards=shards, disk_min_file_size=64)
    c = dc.Cache(d2, disk_min_file_size=64)
    try:
        keys = ['k%02d' % i for i in range(24)] + [('t', i) for i in range(6)]
        for h in (f, c):
            for i, k in enumerate(keys):
                h.set(k, 'v' * (100 if i % 4 == 0 else 3), tag='t%d' % (i % 2))
            h.set('n', 100)
        for aborts in (True, False, True):
            picks = rng.sample(keys, 6)
            outcome = {}
            for name, h in (('sharded', f), ('unsharded', c)):
                try:
                    with h.transact():
                        h.set(picks[0], 'rewritten' * 20)
                        h.set('new-%s' % aborts, 'x' * 90)
                        h.delete(picks[1])
                        h.pop(picks[2], None)
                        h.incr('n', 1000)
                        h.touch(picks[3], 500)
                        h.add(picks[4], 'ignored')
                        if aborts:
                            raise Boom()
                    outcome[name] = 'completed'
                except Boom:
                    outcome[name] = 'left by an exception'
            res.count('evaluations')
            res.count('blocks_compared_with_unsharded')
            a = sorted(((repr(k), f.get(k, tag=True)) for k in f), key=repr)
            b = sorted(((repr(k), c.get(k, tag=True)) for k in c), key=repr)
            if a != b or len(f) != len(c):
                diff = [x for x in a if x not in b][:3] + [x for x in b if x not in a][:3]
                res.violation('a transact() block %s on a %d-shard cache leaves other contents than on an unsharded one: %d vs %d '
                              'items, e.g. %r' % (outcome['sharded'], shards, len(f), len(c), diff),
                              {'label': label, 'shards': shards, 'aborts': aborts})
                return
    finally:
        f.close()
        c.close()
        sc.drop(d1)
        sc.drop(d2)


def outcome_of(fn):
    try:
        return ('ok', fn())
    except Exception as exc:       # noqa: BLE001
        return ('raise', '%s: %s' % (type(exc).__name__, exc))


def run_shard(tier, seed, shard, nshards, res):
    dc = common.use_repo()
    probe.install()
    cfgs = [c for c in c03.configs() if c['cull_limit'] != 1]
    with common.Scratch() as sc:
        for i in range(4 if tier == 'quick' else 40):
            rng = common.rng_for(seed, 'c13', shard, i)
            shards = SHARDS[(shard + i) % len(SHARDS)]
            cfg = dict(gen.pick(rng, cfgs))
            if rng.random() < 0.5:
                cfg['size_limit'] = gen.pick(rng, [2**29, 2**31, 3 * 2**28])
            if rng.random() < 0.5:
                # a stored (non-default) key serialisation: handles exchanged later do not repeat the setting and must
                # still route every pickled key to the shard that holds it
                cfg['disk_pickle_protocol'] = rng.randrange(0, 5)
                res.count('histories_with_stored_pickle_protocol')
            history(dc, sc, res, rng, shards, cfg, 'c13 seed=%d shard=%d i=%d shards=%d' % (seed, shard, i, shards))
            check_damage(dc, sc, res, rng, shards, 'c13 damage seed=%d shard=%d i=%d' % (seed, shard, i))
            if shards > 1:
                partial_reopen(dc, sc, res, rng, shards, 'c13 partial reopen seed=%d shard=%d i=%d' % (seed, shard, i))
                probe.set_clock(None)
                skewed_cull(dc, sc, res, rng, shards, 'c13 skewed cull seed=%d shard=%d i=%d' % (seed, shard, i))
                reload_settings(dc, sc, res, rng, shards, 'c13 reload settings seed=%d shard=%d i=%d' % (seed, shard, i))
                blocks_like_unsharded(dc, sc, res, rng, shards, 'c13 blocks seed=%d shard=%d i=%d' % (seed, shard, i))
                for j in range(3):
                    bulk_while_shards_locked(dc, sc, res, rng, shards, 'c13 bulk under shard locks seed=%d shard=%d i=%d j=%d' % (
                        seed, shard, i, j))
            if res.new_violations() > 8:
                return
        probe.reset()
        rng = common.rng_for(seed, 'c13r', shard)
        pairs = [(0, 1), (1, 4242), (4242, 'random'), ('random', 0)]
        for j in range(1 if tier == 'quick' else 4):
            shards = SHARDS[(shard + j) % len(SHARDS)]
            seeds = pairs[(shard + j) % len(pairs)]
            cross_process(dc, sc, res, rng, shards, seeds, 'c13 cross-process shard=%d shards=%d seeds=%r' % (shard, shards, seeds))
        if shard % 4 == 0:
            golden_routing(dc, res)
        equal_keys(dc, sc, res, SHARDS[shard % len(SHARDS)] if SHARDS[shard % len(SHARDS)] > 1 else 8, 'c13 equal keys shard=%d' % shard)
