"""C10 - push/pull/peek form exactly-once FIFO queues per prefix."""

import collections
import json
import os
import re
import subprocess
import threading
import time

from .. import common, gen, lin, observe, probe
from ..observe import same
from ..driver import spell_positionally
from ..sched import LateHandles, Recorder, Sched, store_gates

PROP = 'C10'
LEVEL = 'exploration'
RULE = ('sequential: histories of push/pull/peek on both sides over prefixes {None,a,b,a-5,a-,ab,a-5-x} mixed with '
        'ordinary keys that lie outside every queue key range (negative ints, ints >= 10**15, strings that merely '
        'resemble queue keys, bytes, tuples), expiring and file-backed items, compared call by call with one '
        'collections.deque per prefix under a virtual clock. concurrent: 2-3 producers/consumers under the schedule '
        'fuzzer (linearizability against the deque model, exactly-once, per-producer order) and free-running '
        'threads/processes (exactly-once, real-time per-producer order). evaluations = calls judged + histories '
        'checked; distinct_nontrivial = distinct (operation, prefix, side, outcome class) cells + distinct schedules '
        'with a preemption inside an operation'
        ' Plus peek-race schedules: one file-backed item queued, one client only peeks, one only pulls, one pushes (the queue drains and restarts its numbering while a peek is between SELECT and fetch).')
DISTINCT = ('cells', 'schedules')
REQUIRED = ('peek_race_schedules', 'jobs_given_back_by_a_rolled_back_block', 'sequential_calls', 'pulls_of_expired_heads', 'file_backed_items', 'ordinary_keys_interleaved',
            'schedules_checked', 'free_runs', 'items_delivered_concurrently', 'prefix_extension_cases',
            'timed_schedules_checked', 'timed_items_delivered', 'timed_items_expired_undelivered', 'queue_blocks_aborted',
            'queue_blocks_committed', 'queue_timeouts_under_commit_contention')
ASSUMPTIONS = ('a queue key is `prefix-<15 digits>` (or an int in (0, 10**15) for prefix None); every other key is an '
               'ordinary key outside the queue key range',)

T = 64
PREFIXES = [None, 'a', 'b', 'a-5', 'a-', 'ab', 'a-5-x', 'a-5-7', 'queue', 'queue-1',
            '', 'a\x00b', '\u00e9', ' ', 'a*', '%', '-']      # legal text prefixes: empty, with NUL, non-ASCII, GLOB/LIKE characters


def plan(tier):
    return {'nshards': 16 if tier == 'quick' else 48, 'timeout': 900 if tier == 'quick' else 3600}


def is_queue_key(prefix, key):
    if prefix is None:
        return type(key) is int and 0 < key < 999999999999999
    return type(key) is str and re.fullmatch(re.escape(prefix) + r'-\d{15}', key) is not None and \
        prefix + '-000000000000000' < key < prefix + '-999999999999999'


ORDINARY = [-1, -500000000000000, 0, 10**15, 10**15 + 7, 2**62, 'a', 'b', 'a-5', 'a-', 'ab', 'a-x', 'a-5-x',
            'a-12345678901234x', 'a-500000000000000x', 'a-50000000000000', 'b-', 'a-5-', b'a-500000000000000',
            'a-5-12345678901234x', 'queue-12', 'queue-50000000000000x',
            ('a', 5), 'a-5-x-', None, -2.5, 1e16, 'aa-500000000000000x', '-50000000000000x', '-5', 'a\x00b-5',
            'a\x00b-50000000000000\x00', '\u00e9-x', '%-', '--']


class QModel:
    def __init__(self):
        self.q = {}          # prefix -> list of dicts(num, key, value, expire, tag) sorted by num
        self.plain = {}      # ident -> value

    def queue(self, prefix):
        return self.q.setdefault(prefix, [])

    def push(self, value, prefix, side, expire_at, tag):
        q = self.queue(prefix)
        if q:
            num = q[-1]['num'] + 1 if side == 'back' else q[0]['num'] - 1
        else:
            num = 500000000000000
        key = num if prefix is None else '%s-%015d' % (prefix, num)
        item = {'num': num, 'key': key, 'value': value, 'expire': expire_at, 'tag': tag}
        if side == 'back':
            q.append(item)
        else:
            q.insert(0, item)
        return key

    def head(self, prefix, side, now, remove):
        q = self.queue(prefix)
        skipped = 0
        while q:
            it = q[0] if side == 'front' else q[-1]
            if it['expire'] is not None and it['expire'] < now:
                q.remove(it)
                skipped += 1
                continue
            if remove:
                q.remove(it)
            return it, skipped
        return None, skipped


def sequential(dc, sc, res, rng, label):
    d = sc.new()
    clock = probe.set_clock(probe.VClock())
    cache = dc.Cache(d, disk_min_file_size=T, cull_limit=0)
    mdl = QModel()
    hist = []
    n = [0]

    def val():
        n[0] += 1
        r = rng.random()
        if r < 0.4:
            res.count('file_backed_items')
            return 'v%d;' % n[0] * 20
        if r < 0.5:
            return b'b%d' % n[0] * 30
        if r < 0.6:
            return gen.pick(rng, [None, 0, '', b'', False, 0.0])      # falsy payloads are items like any other
        return ('v', n[0])

    def fail(what, **extra):
        res.violation(what, dict(extra, label=label, history_tail=hist[-25:]))

    try:
        prefixes = rng.sample(PREFIXES, rng.randrange(2, 6))
        if rng.random() < 0.7 and 'a' not in prefixes:
            prefixes.append('a')
        if rng.random() < 0.5:
            for pair in (('a-5', 'a-5-7'), ('queue', 'queue-1')):
                if rng.random() < 0.5:
                    prefixes.extend(x for x in pair if x not in prefixes)
        if ('a' in prefixes and ('a-5' in prefixes or 'a-5-7' in prefixes)) or ('a-5' in prefixes and 'a-5-7' in prefixes) \
                or ('queue' in prefixes and 'queue-1' in prefixes):
            res.count('prefix_extension_cases')
        for step in range(rng.randrange(60, 200)):
            clock.advance(gen.pick(rng, [0, 0, gen.TICK * 2, 0.3, 2.0]) + gen.TICK)
            # never let an expiry instant fall between two clock reads of one call
            now = clock.now_peek()
            near = [it['expire'] for q in mdl.q.values() for it in q
                    if it['expire'] is not None and now <= it['expire'] <= now + 16 * gen.TICK]
            if near:
                clock.advance(max(near) - now + 2 * gen.TICK)
            r = rng.random()
            p = gen.pick(rng, prefixes)
            side = gen.pick(rng, ['back', 'front'])
            if rng.random() < 0.06:
                # a transact() block of queue operations that commits, or is left by an exception: then every queue is
                # as it was (also the items whose values live in files)
                import copy
                abort = rng.random() < 0.6
                saved = copy.deepcopy(mdl.q)
                inside = []
                try:
                    with cache.transact():
                        for _ in range(rng.randrange(1, 4)):
                            bp, bside = gen.pick(rng, prefixes), gen.pick(rng, ['back', 'front'])
                            if rng.random() < 0.5:
                                bv = val()
                                clock.begin()
                                key = cache.push(bv, prefix=bp, side=bside)
                                exp = mdl.push(bv, bp, bside, None, None)
                                inside.append(('push', bp, bside, key))
                                if not same(key, exp):
                                    return fail('push inside a block returned key %r, expected %r' % (key, exp))
                            else:
                                clock.begin()
                                got = cache.pull(prefix=bp, side=bside)
                                it, _ = mdl.head(bp, bside, clock.reads[0] if clock.reads else clock.now_peek(), True)
                                exp = (None, None) if it is None else (it['key'], it['value'])
                                inside.append(('pull', bp, bside, got))
                                if not same(got, exp):
                                    return fail('pull inside a block returned %r, the queue model says %r' % (got, exp))
                        if abort:
                            raise KeyError('abort the block')
                except KeyError:
                    mdl.q = saved
                hist.append(('block-aborted' if abort else 'block-committed', inside))
                res.count('queue_blocks_aborted' if abort else 'queue_blocks_committed')
                res.count('evaluations')
                continue
            if r < 0.34:
                v = val()
                ttl = gen.pick(rng, [None, None, None, gen.ttl_exact(1.5), gen.ttl_exact(30.5)])
                tag = gen.pick(rng, [None, 't'])
                clock.begin()
                pa, pk = spell_positionally(rng, 'push', (v,), {'prefix': p, 'side': side, 'expire': ttl, 'tag': tag})
                res.count('calls_spelled_positionally', 1 if len(pa) > 1 else 0)
                key = cache.push(*pa, **pk)
                now = clock.reads[0]
                exp = mdl.push(v, p, side, None if ttl is None else now + ttl, tag)
                hist.append(('push', p, side, ttl, key))
                res.count('sequential_calls')
                res.count('evaluations')
                res.seen('cells', ('push', p, side))
                if not same(key, exp):
                    return fail('push(prefix=%r, side=%s) returned key %r, expected %r' % (p, side, key, exp))
                got = cache.get(key, 'MISSING')
                if ttl is None and not same(got, v):
                    return fail('key %r returned by push does not identify the pushed item: get -> %r' % (key, got))
            elif r < 0.62:
                op = 'pull' if rng.random() < 0.7 else 'peek'
                flags = rng.random() < 0.3
                clock.begin()
                pa, pk = spell_positionally(rng, op, (), dict({'prefix': p, 'side': side},
                                                             **({'expire_time': True, 'tag': True} if flags else {})))
                res.count('calls_spelled_positionally', 1 if pa else 0)
                got = getattr(cache, op)(*pa, **pk)
                it, skipped = mdl.head(p, side, clock.reads[0] if clock.reads else clock.now_peek(), op == 'pull')
                if skipped:
                    res.count('pulls_of_expired_heads', skipped)
                hist.append((op, p, side, got if not flags else got[0]))
                res.count('sequential_calls')
                res.count('evaluations')
                res.seen('cells', (op, p, side, it is None, flags))
                if it is None:
                    exp = ((None, None), None, None) if flags else (None, None)
                else:
                    exp = ((it['key'], it['value']), it['expire'], it['tag']) if flags else (it['key'], it['value'])
                if not same(got, exp):
                    return fail('%s(prefix=%r, side=%s) returned %r, the queue model says %r' % (op, p, side, got, exp))
            elif r < 0.85:
                k = gen.pick(rng, ORDINARY)
                if any(is_queue_key(q, k) for q in PREFIXES):
                    continue
                res.count('ordinary_keys_interleaved')
                kid = observe.ident(k)
                if rng.random() < 0.7:
                    v = val()
                    cache.set(k, v)
                    mdl.plain[kid] = v
                    hist.append(('set', k))
                else:
                    got = cache.pop(k, 'MISSING')
                    exp = mdl.plain.pop(kid, 'MISSING')
                    hist.append(('pop', k))
                    if not same(got, exp):
                        return fail('ordinary key %r: pop returned %r, expected %r' % (k, got, exp))
            else:
                # ordinary keys must be undisturbed
                for kid, v in list(mdl.plain.items())[:6]:
                    pass
                total = sum(len(q) for q in mdl.q.values()) + len(mdl.plain)
                if len(cache) != total:
                    return fail('len(cache) = %d, queues + ordinary keys = %d' % (len(cache), total))
        # drain everything and compare
        for p in prefixes:
            while True:
                clock.begin()
                got = cache.pull(prefix=p)
                it, _ = mdl.head(p, 'front', clock.reads[0] if clock.reads else clock.now_peek(), True)
                exp = (None, None) if it is None else (it['key'], it['value'])
                res.count('sequential_calls')
                if not same(got, exp):
                    return fail('draining prefix %r: pull returned %r, expected %r' % (p, got, exp))
                if it is None:
                    break
        for k in ORDINARY:
            kid = observe.ident(k)
            if kid in mdl.plain and not same(cache.get(k, 'MISSING'), mdl.plain[kid]):
                return fail('ordinary key %r was disturbed by queue operations: %r' % (k, cache.get(k, 'MISSING')))
        if len(res.samples) < 2:
            res.sample({'label': label, 'prefixes': prefixes, 'history_head': hist[:15]})
    finally:
        cache.close()
        sc.drop(d)


# ----------------------------------------------------------------- concurrent
def q_step(state, o):
    """state: tuple of (num, value)."""
    q = list(state)
    op, a, kw = o['op'], o['args'], o.get('kw') or {}
    if op == 'push':
        side = kw.get('side', 'back')
        if q:
            num = q[-1][0] + 1 if side == 'back' else q[0][0] - 1
        else:
            num = 500000000000000
        if side == 'back':
            q.append((num, a[0]))
        else:
            q.insert(0, (num, a[0]))
        return [(tuple(q), 'ok', 'q-%015d' % num)]
    if op in ('pull', 'peek'):
        side = kw.get('side', 'front')
        if not q:
            return [(tuple(q), 'ok', (None, None))]
        it = q[0] if side == 'front' else q[-1]
        if op == 'pull':
            q.remove(it)
        return [(tuple(q), 'ok', ('q-%015d' % it[0], it[1]))]
    if op == 'len':
        return [(tuple(q), 'ok', len(q))]
    raise ValueError(op)


class GiveBack(Exception):
    pass


def schedule(dc, sc, res, rng, label, peek_race=False):
    # peek_race: one file-backed item is queued already; one client only peeks, one only pulls, one pushes: the head a
    # peek selected is pulled, the queue runs empty and numbering restarts before the peek reads the value (seeded/C10-11)
    d = sc.new()
    clock = probe.set_clock(probe.VClock())
    shared = rng.random() < 0.5
    setup = dc.Cache(d, timeout=0, disk_min_file_size=T)
    nprod, ncons = rng.randrange(1, 3), rng.randrange(1, 3)
    if peek_race:
        nprod, ncons = 1, 2
    n = nprod + ncons
    caches = LateHandles(rng, n, lambda: dc.Cache(d, timeout=0), shared=setup if shared else None)
    sch = Sched(rng, clock, strategy=rng.choice(['random', 'preempt', 'random', 'ops']),
                preempt_points={rng.randrange(0, 120) for _ in range(3)})
    if store_gates(sch, rng, dc):
        res.count('schedules_with_attribute_store_gates')
    rec = Recorder(sch)
    big = rng.random() < 0.5 or peek_race
    first = []
    if peek_race:
        v0 = 'p9-0;' * 20
        first.append({'client': 98, 'op': 'push', 'args': (v0,), 'kw': {'side': 'back'}, 'call': -10, 'ret': -9,
                      'kind': 'ok', 'result': setup.push(v0, prefix='q')})
        res.count('peek_race_schedules')

    def producer(ci):
        def run():
            for i in range(rng.randrange(1, 4)):
                v = ('p%d-%d;' % (ci, i)) * (20 if big else 1)
                side = 'back' if rng.random() < 0.8 else 'front'
                rec.call(ci, 'push', (v,), lambda: caches[ci].push(v, prefix='q', side=side, retry=True), {'side': side})
        return run

    def consumer(ci):
        def run():
            for i in range(rng.randrange(1, 4)):
                side = 'front' if rng.random() < 0.8 else 'back'
                op = 'pull' if rng.random() < 0.8 else 'peek'
                if peek_race:
                    op, side = ('peek' if ci == nprod else 'pull'), 'front'
                if rng.random() < 0.2 and not peek_race:
                    # a consumer takes the job inside a transaction, fails to process it and gives it back: the block
                    # is left by an exception, so to the queue nothing has happened
                    def give_back():
                        try:
                            with caches[ci].transact(retry=True):
                                caches[ci].pull(prefix='q', side=side)
                                raise GiveBack()
                        except GiveBack:
                            return None
                    rec.call(ci, 'noop', (), give_back, {})
                    res.count('jobs_given_back_by_a_rolled_back_block')
                    continue
                rec.call(ci, op, (), lambda: getattr(caches[ci], op)(prefix='q', side=side, retry=True), {'side': side})
        return run

    try:
        ok = sch.run([producer(i) for i in range(nprod)] + [consumer(nprod + i) for i in range(ncons)])
        probe.set_controller(None)
        extra = {'label': label, 'shared_object': shared, 'trace_hash': sch.trace_hash()}
        errs = sch.errors()
        if errs:
            res.violation('client died: %s' % errs[0][1][1][-400:], extra)
            return
        if not ok:
            res.count('schedules_hit_step_cap')
            return
        ops = first + list(rec.ops)
        for o in ops:
            if o['kind'] == 'raise':
                res.violation('%s raised %s (%s)' % (o['op'], o['result'], o.get('exc')), extra)
                return
        ops = [o for o in ops if o['op'] != 'noop']
        # drain through a fresh handle
        fresh = dc.Cache(d)
        t = sch.tick + 5
        while True:
            got = fresh.pull(prefix='q')
            ops.append({'client': 99, 'op': 'pull', 'args': (), 'kw': {'side': 'front'}, 'call': t, 'ret': t + 1,
                        'kind': 'ok', 'result': got})
            t += 2
            if got == (None, None):
                break
        fresh.close()
        pushed = [o['args'][0] for o in ops if o['op'] == 'push']
        pulled = [o['result'][1] for o in ops if o['op'] == 'pull' and o['result'] != (None, None)]
        res.count('items_delivered_concurrently', len(pulled))
        if sorted(pushed) != sorted(pulled):
            res.violation('pushed and pulled items differ (lost or duplicated): pushed %d, pulled %d' % (
                len(pushed), len(pulled)), dict(extra, pushed=sorted(pushed), pulled=sorted(pulled)))
            return
        try:
            good, info = lin.check(ops, (), q_step, timeout=10)
        except lin.Timeout:
            res.count('linearizability_search_timeouts')
            good = True
        res.count('schedules_checked')
        res.count('handles_opened_inside_schedules', caches.opened_inside)
        res.count('evaluations')
        if sch.preemptions_in_op:
            res.seen('schedules', sch.trace_hash())
        if not good:
            res.violation('queue history is not linearizable against the deque model',
                          dict(extra, checker=info, history=[{k: o[k] for k in ('client', 'op', 'args', 'kw', 'call',
                                                                                'ret', 'result')} for o in ops]))
    finally:
        probe.set_controller(None)
        for c in set(caches.all()) | {setup}:
            try:
                c.close()
            except Exception:      # noqa: BLE001
                pass
        sc.drop(d)


# ------------------------------------------------- concurrent, with expiring items (timed linearizability)
TICK = probe.VClock.TICK
INF = float('inf')


def tq_step(state, o):
    """Deque model with expiry under a clock.  state = (items, L): items are (value, e_lo, e_hi) in queue order
    (e_* None = no ttl), L = instant of the last linearized call.  A call takes effect at one instant t of its own
    window [t0, t1], not before L.  An item may be treated as expired iff t > e_lo and as live iff t <= e_hi (its exact
    expiry instant lies in [e_lo, e_hi]; both are that instant when a pull reported it).  pull/peek pass over the
    expired items at their side and return the first live one.  Expired items are invisible, so when exactly they
    are physically discarded is not modelled: keys and len(), which depend on it, are left out of the comparison."""
    q, L = state
    op, a, kw = o['op'], o['args'], o.get('kw') or {}
    t_lo = max(L, o['t0'])
    t_hi = o['t1'] if o.get('t1') is not None else INF
    if t_lo > t_hi:
        return []
    if op == 'push':
        item = (a[0], o.get('e_lo'), o.get('e_hi'))
        nq = q + (item,) if kw.get('side', 'back') == 'back' else (item,) + q
        return [((nq, t_lo), 'ok', 'pushed')]
    if op in ('pull', 'peek'):
        side = kw.get('side', 'front')
        seq = list(q) if side == 'front' else list(reversed(q))
        out = []
        t = t_lo
        for k in range(len(seq) + 1):
            # the first k items are passed over as expired at instant t
            if k < len(seq):
                value, e_lo, e_hi = seq[k]
                if e_hi is None or t <= e_hi:
                    rest = seq[:k] + seq[k + 1:] if op == 'pull' else seq
                    nq = tuple(rest) if side == 'front' else tuple(reversed(rest))
                    out.append(((nq, t), 'ok', (value, e_lo if e_lo == e_hi else ('?', e_lo, e_hi))))
                if e_lo is None:
                    break                                   # an item without a ttl is never passed over
                t = max(t, e_lo + TICK / 4)
                if t > t_hi:
                    break
            else:
                out.append(((q, t), 'ok', (None, None)))
        return out
    raise ValueError(op)


def timed_schedule(dc, sc, res, rng, label):
    """Producers and consumers of one queue whose items carry ttls of a few clock ticks, so that items expire while
    calls are in flight; every clock read ticks the virtual clock.  Judged by the timed model above."""
    d = sc.new()
    clock = probe.set_clock(probe.VClock())
    shared = rng.random() < 0.4
    setup = dc.Cache(d, timeout=0, disk_min_file_size=T, cull_limit=0)     # no lazy culling: physical removal of expired
    ttls = [None, 2.5, 6.5, 14.5, 40.5, 300.5, 3000.5]                     # items only by the calls under test (ticks)
    ops = []
    stamp = [0]

    def value(ci):
        stamp[0] += 1
        return ('t%d-%d;' % (ci, stamp[0])) * (20 if rng.random() < 0.3 else 1)

    def push_call(cache, v, side, ttl):
        return cache.push(v, prefix='q', side=side, expire=None if ttl is None else ttl * TICK, retry=True)

    for _ in range(rng.randrange(0, 4)):                                    # items present before the clients start
        v, ttl = value(9), gen.pick(rng, ttls)
        t0 = clock.now_peek()
        key = push_call(setup, v, 'back', ttl)
        ops.append({'client': 98, 'op': 'push', 'args': (v,), 'kw': {'side': 'back', 'ttl': ttl}, 'call': -10 + len(ops),
                    'ret': -10 + len(ops) + 0.5, 'kind': 'ok', 'result': key, 't0': t0, 't1': clock.now_peek()})
    nprod, ncons = rng.randrange(1, 3), rng.randrange(1, 4)
    n = nprod + ncons
    caches = LateHandles(rng, n, lambda: dc.Cache(d, timeout=0), shared=setup if shared else None)
    sch = Sched(rng, clock, strategy=rng.choice(['random', 'preempt', 'random', 'ops']),
                preempt_points={rng.randrange(0, 80) for _ in range(3)})
    if store_gates(sch, rng, dc):
        res.count('schedules_with_attribute_store_gates')
    rec = Recorder(sch)

    def producer(ci):
        plan_ = [(value(ci), 'back' if rng.random() < 0.8 else 'front', gen.pick(rng, ttls)) for _ in range(rng.randrange(1, 4))]

        def run():
            for v, side, ttl in plan_:
                rec.call(ci, 'push', (v,), lambda: push_call(caches[ci], v, side, ttl), {'side': side, 'ttl': ttl})
        return run

    def consumer(ci):
        plan_ = [('front' if rng.random() < 0.8 else 'back', 'pull' if rng.random() < 0.75 else 'peek')
                 for _ in range(rng.randrange(1, 4))]

        def run():
            for side, op in plan_:
                rec.call(ci, op, (), lambda: getattr(caches[ci], op)(prefix='q', side=side, expire_time=True,
                                                                      retry=True), {'side': side})
        return run

    try:
        ok = sch.run([producer(i) for i in range(nprod)] + [consumer(nprod + i) for i in range(ncons)])
        probe.set_controller(None)
        extra = {'label': label, 'shared_object': shared, 'trace_hash': sch.trace_hash(), 'tick': TICK}
        errs = sch.errors()
        if errs:
            res.violation('client died: %s' % errs[0][1][1][-400:], extra)
            return
        if not ok:
            res.count('schedules_hit_step_cap')
            return
        ops.extend(rec.ops)
        for o in ops:
            if o['kind'] == 'raise':
                res.violation('%s raised %s (%s)' % (o['op'], o['result'], o.get('exc')), extra)
                return
        # drain through a fresh handle, long after every ttl has passed
        clock.advance(1.0)
        fresh = dc.Cache(d)
        t = sch.tick + 5
        while True:
            t0 = clock.now_peek()
            got = fresh.pull(prefix='q', expire_time=True)
            ops.append({'client': 99, 'op': 'pull', 'args': (), 'kw': {'side': 'front'}, 'call': t, 'ret': t + 1,
                        'kind': 'ok', 'result': got, 't0': t0, 't1': clock.now_peek()})
            t += 2
            if got == ((None, None), None):
                break
        left = len(fresh)
        fresh.close()
        # expiry instants: exact where a pull/peek reported one, otherwise bounded by the push's own window
        exact = {}
        for o in ops:
            if o['op'] in ('pull', 'peek') and o['result'][0] != (None, None):
                exact[o['result'][0][1]] = o['result'][1]
        pushed = {}
        for o in ops:
            if o['op'] == 'push':
                ttl = o['kw']['ttl']
                v = o['args'][0]
                pushed[v] = ttl
                if ttl is None:
                    o['e_lo'] = o['e_hi'] = None
                    if exact.get(v, None) is not None:
                        res.violation('an item pushed without a ttl was delivered with expiry instant %r' % (exact[v],), extra)
                        return
                elif v in exact:
                    e = exact[v]
                    if e is None or not (o['t0'] + ttl * TICK <= e <= o['t1'] + ttl * TICK):
                        res.violation('an item pushed with ttl %r ticks was delivered with expiry instant %r, outside '
                                      'push window + ttl' % (ttl, e), dict(extra, push=[o['t0'], o['t1']]))
                        return
                    o['e_lo'] = o['e_hi'] = e
                else:
                    o['e_lo'], o['e_hi'] = o['t0'] + ttl * TICK, o['t1'] + ttl * TICK
        pulls = [o['result'][0][1] for o in ops if o['op'] == 'pull' and o['result'][0] != (None, None)]
        if len(set(pulls)) != len(pulls):
            res.violation('an item was delivered twice', dict(extra, pulled=sorted(pulls)))
            return
        lost = [v for v, ttl in pushed.items() if ttl is None and v not in pulls]
        if lost or left:
            res.violation('items without a ttl were never delivered: %r (len after drain %d)' % (lost[:3], left), extra)
            return
        res.count('timed_items_delivered', len(pulls))
        res.count('timed_items_expired_undelivered', len(pushed) - len(pulls))
        hist = [{k: o.get(k) for k in ('client', 'op', 'args', 'kw', 'call', 'ret', 'result', 't0', 't1', 'e_lo', 'e_hi')}
                for o in ops]
        keys_now = {}
        for o in ops:                         # keys: a delivered item carries the key its push returned
            if o['op'] == 'push':
                keys_now[o['args'][0]] = o['result']
        for o in ops:
            if o['op'] in ('pull', 'peek') and o['result'][0] != (None, None):
                (k, v), e = o['result']
                if keys_now.get(v) != k:
                    res.violation('item %r was pushed as %r but delivered as %r' % (v[:12], keys_now.get(v), k), extra)
                    return
        abstract = []
        for o in ops:
            o2 = dict(o)
            o2['result'] = 'pushed' if o['op'] == 'push' else (o['result'][0][1], o['result'][1])
            abstract.append(o2)
        try:
            good, info = lin.check(abstract, ((), 0.0), tq_step, timeout=10)
        except lin.Timeout:
            res.count('linearizability_search_timeouts')
            good = True
        res.count('timed_schedules_checked')
        res.count('evaluations')
        if sch.preemptions_in_op:
            res.seen('schedules', ('timed', sch.trace_hash()))
        if not good:
            res.violation('queue history with expiring items is not linearizable against the timed deque model: some '
                          'item was delivered (or skipped) although at every instant the call can have taken effect it '
                          'had (not) expired', dict(extra, checker=info, history=hist))
    finally:
        probe.set_controller(None)
        for c in set(caches.all()) | {setup}:
            try:
                c.close()
            except Exception:      # noqa: BLE001
                pass
        sc.drop(d)


def queue_commit_contention(dc, sc, res, rng, label):
    """Exactly-once when calls give up: a rollback-journal directory, reader threads that keep a shared lock alive, and
    one client pushing and pulling with timeout 0 and retry off.  A push that raises Timeout enqueued nothing, a pull
    that raises Timeout consumed nothing; draining afterwards delivers exactly the items of the pushes that returned,
    in order."""
    journal = rng.choice(['delete', 'truncate', 'persist'])
    d = sc.new()
    dc.Cache(d, disk_min_file_size=T, sqlite_journal_mode=journal).close()
    worker = dc.Cache(d, timeout=0)
    stop = threading.Event()

    def reader():
        c = dc.Cache(d, timeout=5)
        try:
            while not stop.is_set():
                len(c)
                c.get('q-500000000000000')
                'x' in c
        finally:
            c.close()
    threads = [threading.Thread(target=reader) for _ in range(2)]
    for th in threads:
        th.start()
    model = collections.deque()
    timeouts = 0
    wit = {'label': label, 'journal_mode': journal}
    try:
        for n in range(70):
            v = ('i%d;' % n) * (30 if rng.random() < 0.6 else 1)
            try:
                if rng.random() < 0.6:
                    worker.push(v, prefix='q')
                    model.append(v)
                else:
                    got = worker.pull(prefix='q')
                    want = model.popleft() if model else None
                    if got[1] != want:
                        res.violation('pull under commit contention delivered %r, expected %r' % (str(got[1])[:12], str(want)[:12]), wit)
                        return
            except dc.Timeout:
                timeouts += 1
            except Exception as exc:      # noqa: BLE001
                res.violation('a queue call with retry off raised %s (%s) under commit contention' % (type(exc).__name__, exc), wit)
                return
    finally:
        stop.set()
        for th in threads:
            th.join(30)
    fresh = dc.Cache(d)
    try:
        left = []
        while True:
            k, v = fresh.pull(prefix='q')
            if k is None:
                break
            left.append(v)
        res.count('evaluations')
        res.count('queue_commit_contention_runs')
        res.count('queue_timeouts_under_commit_contention', timeouts)
        if left != list(model):
            res.violation('after %d timed-out queue calls the queue holds %d items, the calls that returned left %d' % (
                timeouts, len(left), len(model)), dict(wit, first_difference=next(
                    (i for i, (a, b) in enumerate(zip(left, model)) if a != b), min(len(left), len(model)))))
            return
        problems = observe.invariant(d)
        if problems:
            res.violation('after a queue run with timed-out calls: %r' % problems[:3], wit)
    finally:
        fresh.close()
        worker.close()
        sc.drop(d)


CHILD = r'''
import json, random, sys, time
sys.path.insert(0, %(verif)r)
from vf import common, probe
dc = common.use_repo()
probe.install(audit=False)
d, role, ci, seed, n = sys.argv[1], sys.argv[2], int(sys.argv[3]), int(sys.argv[4]), int(sys.argv[5])
rng = random.Random(seed * 100 + ci)
class Delay:
    def gate(self, label, info=None):
        if rng.random() < 0.1:
            time.sleep(rng.random() * 0.002)
probe.set_controller(Delay())
from vf.checks import c10
cache = dc.Cache(d, timeout=60)
print(json.dumps(c10.free_client(cache, role, ci, rng, n)))
'''


def free_client(cache, role, ci, rng, n):
    out = []
    if role == 'producer':
        for i in range(n):
            v = 'p%d-%06d;' % (ci, i) * (12 if i % 3 == 0 else 1)
            t0 = time.monotonic_ns()
            cache.push(v, prefix='q', retry=True)
            out.append(('push', ci, i, t0, time.monotonic_ns()))
    else:
        misses = 0
        while misses < 200 and len(out) < 10 * n:
            t0 = time.monotonic_ns()
            k, v = cache.pull(prefix='q', retry=True)
            t1 = time.monotonic_ns()
            if v is None:
                misses += 1
                time.sleep(0.001)
                continue
            misses = 0
            pc, pi = v.split(';')[0][1:].split('-')
            whole = v == ('p%s-%s;' % (pc, pi)) * (12 if int(pi) % 3 == 0 else 1)
            out.append(('pull', int(pc), int(pi), t0, t1, whole))
    return out


def free_run(dc, sc, res, rng, seed, topo, label):
    d = sc.new()
    journal = rng.choice(['wal', 'wal', 'delete', 'truncate', 'persist'])
    res.count('free_runs_journal_' + ('wal' if journal == 'wal' else 'rollback'))
    dc.Cache(d, disk_min_file_size=T, **common.journal_kw(journal)).close()
    nprod, ncons, n = rng.randrange(2, 4), rng.randrange(1, 4), rng.randrange(40, 90)
    roles = [('producer', i) for i in range(nprod)] + [('consumer', nprod + i) for i in range(ncons)]
    outs = []
    if topo == 'processes':
        code = CHILD % {'verif': common.VERIF}
        env = dict(os.environ, VF_REPO=common.REPO, PYTHONDONTWRITEBYTECODE='1')
        procs = [subprocess.Popen([common.PY, '-c', code, d, role, str(ci), str(seed), str(n)], stdout=subprocess.PIPE,
                                  stderr=subprocess.PIPE, env=env) for role, ci in roles]
        for p in procs:
            try:
                so, se = p.communicate(timeout=300)
            except subprocess.TimeoutExpired:
                p.kill()
                res.inconclusive.append('free-running queue process hit the watchdog')
                return
            if p.returncode:
                res.violation('queue client process died: %s' % se.decode()[-400:], {'label': label})
                return
            outs.extend(json.loads(so))
    else:
        import random as _r
        results = [None] * len(roles)

        def worker(idx, role, ci):
            cache = dc.Cache(d, timeout=60)
            results[idx] = free_client(cache, role, ci, _r.Random(seed * 100 + ci), n)
            cache.close()
        ths = [threading.Thread(target=worker, args=(i, r, c)) for i, (r, c) in enumerate(roles)]
        for th in ths:
            th.start()
        for th in ths:
            th.join(300)
        if any(r is None for r in results):
            res.inconclusive.append('free-running queue thread did not finish')
            return
        for r in results:
            outs.extend(r)
    fresh = dc.Cache(d)
    while True:
        k, v = fresh.pull(prefix='q')
        if v is None:
            break
        pc, pi = v.split(';')[0][1:].split('-')
        outs.append(('pull', int(pc), int(pi), 2**62, 2**62 + 1, True))
    fresh.close()
    sc.drop(d)
    res.count('free_runs')
    res.count('evaluations')
    pushes = {(o[1], o[2]): o for o in outs if o[0] == 'push'}
    pulls = [o for o in outs if o[0] == 'pull']
    res.count('items_delivered_concurrently', len(pulls))
    seen = {}
    for o in pulls:
        key = (o[1], o[2])
        if not o[5]:
            res.violation('a pulled value is partial/mixed: producer %d item %d' % key, {'label': label})
            return
        if key in seen:
            res.violation('item %r delivered twice' % (key,), {'label': label})
            return
        seen[key] = o
    if set(seen) != set(pushes):
        res.violation('items lost or invented: pushed %d, delivered %d, missing %r' % (
            len(pushes), len(seen), sorted(set(pushes) - set(seen))[:5]), {'label': label})
        return
    # per-producer order, real-time form: pull(b) never returns before pull(a) is invoked, for a before b
    by_prod = {}
    for (pc, pi), o in seen.items():
        by_prod.setdefault(pc, []).append((pi, o[3], o[4]))
    for pc, items in by_prod.items():
        items.sort()
        for (i1, c1, r1), (i2, c2, r2) in zip(items, items[1:]):
            if r2 < c1:
                res.violation('producer %d: item %d was delivered (returned) before the pull of item %d was even '
                              'invoked' % (pc, i2, i1), {'label': label})
                return


def run_shard(tier, seed, shard, nshards, res):
    dc = common.use_repo()
    probe.install()
    with common.Scratch() as sc:
        for i in range(20 if tier == 'quick' else 250):
            rng = common.rng_for(seed, 'c10s', shard, i)
            sequential(dc, sc, res, rng, 'c10 sequential seed=%d shard=%d i=%d' % (seed, shard, i))
            if res.new_violations() > 8:
                return
        probe.reset()
        for i in range(60 if tier == 'quick' else 800):
            rng = common.rng_for(seed, 'c10c', shard, i)
            schedule(dc, sc, res, rng, 'c10 schedule seed=%d shard=%d i=%d' % (seed, shard, i))
            if res.new_violations() > 8:
                return
        for i in range(40 if tier == 'quick' else 500):
            rng = common.rng_for(seed, 'c10p', shard, i)
            schedule(dc, sc, res, rng, 'c10 peek race seed=%d shard=%d i=%d' % (seed, shard, i), peek_race=True)
            if res.new_violations() > 8:
                return
        for i in range(60 if tier == 'quick' else 800):
            rng = common.rng_for(seed, 'c10t', shard, i)
            timed_schedule(dc, sc, res, rng, 'c10 timed schedule seed=%d shard=%d i=%d' % (seed, shard, i))
            if res.new_violations() > 8:
                return
        probe.reset()
        for i in range(1 if tier == 'quick' else 8):
            queue_commit_contention(dc, sc, res, common.rng_for(seed, 'c10q', shard, i), 'c10 commit contention seed=%d shard=%d i=%d' % (seed, shard, i))
        for i in range(1 if tier == 'quick' else 8):
            rng = common.rng_for(seed, 'c10f', shard, i)
            topo = 'processes' if (shard + i) % 2 else 'threads'
            free_run(dc, sc, res, rng, seed * 1000 + shard * 10 + i, topo,
                     'c10 free run seed=%d shard=%d i=%d %s' % (seed, shard, i, topo))
