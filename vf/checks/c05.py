"""C05 - every single operation is atomic under concurrent threads/processes."""

import json
import os
import subprocess
import sys
import threading
import time

from .. import common, lin, observe, probe
from ..sched import Recorder, Sched, code_objects

PROP = 'C05'
LEVEL = 'exploration'
RULE = ('mode A: small concurrent programs (2-4 clients x 2-5 calls over 1-3 keys, inline and file-backed stamped '
        'values, shared Cache object or one Cache per client) run under the cooperative schedule fuzzer at SQL-statement'
        ' / file-operation granularity; the call/return history plus a final read-out is checked for linearizability '
        'against a sequential map (Wing-Gong search), after removing only lookups that missed while overlapping a write '
        'of the same key. mode B: free-running threads and OS processes with injected gate delays, per-key check. '
        'evaluations = histories checked; distinct_nontrivial = distinct schedule traces that contained at least one '
        'preemption inside an operation (mode A) plus free runs with overlapping operation pairs (mode B)'
        ' Expired-but-present rows are explored both with cull_limit 0 and with lazy culling switched on after the rows are planted.')
DISTINCT = ('shared_object_schedules', 'schedules_with_preemption_in_op', 'free_runs_with_overlap')
REQUIRED = ('expired_present_keys_with_lazy_culling', 'lookups_overlapping_remove_and_store', 'schedules_through_a_sharded_cache', 'fork_runs', 'shared_object_programs', 'shared_object_schedules_judged', 'schedules_interleaved_at_statement_level', 'statement_level_gates_passed', 'calls_joining_an_enclosing_transaction', 'schedules_with_rollbacks_of_waiting_calls', 'histories_checked', 'schedules_shared_object', 'schedules_separate_objects', 'lock_waits_observed',
            'file_backed_values', 'free_runs_threads', 'free_runs_processes', 'lru_stat_schedules', 'expired_present_keys',
            'handles_opened_during_schedules', 'partly_consumed_iterations', 'timeouts_under_commit_contention')
ASSUMPTIONS = ('threads are interleaved at SQL-statement and value-file-operation granularity (where diskcache\'s '
               'critical sections begin and end); interleavings inside SQLite are reached only by free-running runs',
               'cross-process ordering uses CLOCK_MONOTONIC shared by processes of one machine')

T = 64


def plan(tier):
    return {'nshards': 16 if tier == 'quick' else 64, 'timeout': 900 if tier == 'quick' else 5400}


def stamp(client, n, big):
    s = 'c%d-%d;' % (client, n)
    return s * (T // len(s) + 2) if big else s


def gen_program(rng, nclients):
    keys = ['a', 'b', 'n'][:rng.randrange(1, 4)]
    prog = []
    counter = [0]

    def value(ci, key):
        counter[0] += 1
        if key == 'n' or rng.random() < 0.15:
            return counter[0] * 100 + ci
        if rng.random() < 0.06:
            return rng.choice([None, '', 0.0, False])       # falsy values are values like any other
        return stamp(ci, counter[0], rng.random() < 0.5)

    for ci in range(nclients):
        ops = []
        for _ in range(rng.randrange(2, 6)):
            k = rng.choice(keys)
            r = rng.random()
            if k == 'n' and r < 0.45:
                ops.append((rng.choice(['incr', 'incr', 'decr']), (k, rng.choice([1, 2, 5])), {}))
            elif r < 0.25:
                ops.append(('set', (k, value(ci, k)), {}))
            elif r < 0.37:
                ops.append(('add', (k, value(ci, k)), {}))
            elif r < 0.52:
                ops.append(('get', (k, 'MISS'), {}))
            elif r < 0.58:
                ops.append(('getitem', (k,), {}))
            elif r < 0.68:
                ops.append(('pop', (k, 'MISS'), {}))
            elif r < 0.76:
                ops.append(('delete', (k,), {}))
            elif r < 0.80:
                ops.append(('delitem', (k,), {}))
            elif r < 0.84:
                ops.append(('touch', (k,), {}))
            elif r < 0.90:
                ops.append(('contains', (k,), {}))
            elif r < 0.94:
                ops.append(('len', (), {}))
            elif r < 0.97:
                ops.append(('iter', (), {}))
            else:
                ops.append(('setitem', (k, value(ci, k)), {}))
        if rng.random() < 0.12:
            # a partly consumed iteration: the client takes one key, goes on with other calls and finishes the loop later
            i = rng.randrange(0, len(ops) + 1)
            ops.insert(i, ('iter_open', (), {'reverse': rng.random() < 0.3}))
            ops.insert(rng.randrange(i + 1, len(ops) + 1), ('iter_rest', (), {}))
        prog.append(ops)
    init = {}
    for k in keys:
        if rng.random() < 0.5:
            init[k] = 7 if k == 'n' else stamp(9, len(init), rng.random() < 0.5)
    if any(o[0] == 'iter_open' for ops in prog for o in ops):
        for k in ('y1', 'y2', 'y3'):         # keys nobody touches, so that the loop has something left to yield
            init[k] = stamp(9, len(init), False)
    return keys, init, prog


OPEN_ITERATIONS = {}


def do_op(cache, op, args, kw):
    if op == 'set':
        return cache.set(args[0], args[1], retry=True)
    if op == 'add':
        return cache.add(args[0], args[1], retry=True)
    if op in ('incr', 'decr'):
        return getattr(cache, op)(args[0], args[1], retry=True, **kw)
    if op == 'get':
        return cache.get(args[0], args[1], retry=True)
    if op == 'getitem':
        return cache[args[0]]
    if op == 'pop':
        return cache.pop(args[0], args[1], retry=True)
    if op == 'delete':
        return cache.delete(args[0], retry=True)
    if op == 'delitem':
        del cache[args[0]]
        return None
    if op == 'setitem':
        cache[args[0]] = args[1]
        return None
    if op == 'touch':
        return cache.touch(args[0], retry=True)
    if op == 'contains':
        return args[0] in cache
    if op == 'len':
        return len(cache)
    if op == 'iter':
        return list(cache)
    if op == 'iter_open':
        it = reversed(cache) if kw.get('reverse') else iter(cache)
        OPEN_ITERATIONS[threading.get_ident()] = it
        return next(it, None)
    if op == 'iter_rest':
        it = OPEN_ITERATIONS.pop(threading.get_ident(), None)
        return list(it) if it is not None else []
    raise ValueError(op)


def lookup_info(o):
    op = o['op']
    if op == 'get':
        return True, o['args'][0], o['kind'] == 'ok' and o['result'] == o['args'][1]
    if op == 'getitem':
        return True, o['args'][0], o['kind'] == 'raise' and o['result'] == 'KeyError'
    if op == 'contains':
        return True, o['args'][0], o['kind'] == 'ok' and o['result'] is False
    return False, None, False


ALLOWED_EXC = {'getitem': {'KeyError'}, 'delitem': {'KeyError'}, 'incr': {'TypeError', 'KeyError'},
               'decr': {'TypeError', 'KeyError'}}


def judge_history(res, ops, init, label, keys, extra):
    """Direct assertions + linearizability.  Returns True if clean."""
    # unexpected exceptions
    for o in ops:
        if o['kind'] == 'raise' and o['result'] not in ALLOWED_EXC.get(o['op'], ()):
            res.violation('%s raised %s (%s)' % (o['op'], o['result'], o.get('exc')),
                          dict(extra, label=label, op=[o['op'], o['args']]))
            return False
    # values read are exactly one value written (no partial / mixed value)
    written = {}
    for k, v in init.items():
        written.setdefault(k, set()).add(repr(v))
    numeric = set()
    for o in ops:
        if o['op'] in ('set', 'add', 'setitem'):
            written.setdefault(o['args'][0], set()).add(repr(o['args'][1]))
        if o['op'] in ('incr', 'decr'):
            numeric.add(o['args'][0])
            written.setdefault(o['args'][0], set())
    for o in ops:
        if o['kind'] == 'ok' and o['op'] in ('get', 'getitem', 'pop'):
            k = o['args'][0]
            v = o['result']
            if o['op'] != 'getitem' and v == o['args'][1]:
                continue
            if k in numeric and isinstance(v, (int, float)):
                continue
            if repr(v) not in written.get(k, ()):
                res.violation('%s(%r) returned a value nobody wrote to that key: %r' % (o['op'], k, v),
                              dict(extra, label=label))
                return False
    # iteration: no duplicates, only keys that were ever stored
    removed_keys = {o['args'][0] for o in ops if o['op'] in ('pop', 'delete', 'delitem')}
    for o in ops:
        if o['op'] == 'iter' and o['kind'] == 'ok':
            ks = o['result']
            if len(set(ks)) != len(ks):
                res.violation('iteration yielded a key twice: %r' % (ks,), dict(extra, label=label))
                return False
            for k in ks:
                if k not in written:
                    res.violation('iteration yielded %r, never stored' % (k,), dict(extra, label=label))
                    return False
            for k in init:
                if k not in removed_keys and k not in ks:
                    res.violation('iteration skipped %r, present during the whole run' % (k,), dict(extra, label=label))
                    return False
    plain = [o for o in ops if o['op'] not in ('iter', 'iter_open', 'iter_rest')]
    kept, dropped = lin.drop_tolerated_misses(plain, lookup_info)
    res.count('tolerated_misses', dropped)
    init_state = tuple(sorted(init.items(), key=repr))
    try:
        ok, info = lin.check(kept, init_state, lin.kv_step, timeout=10.0)
    except lin.Timeout:
        res.count('linearizability_search_timeouts')
        return True
    res.count('histories_checked')
    res.count('evaluations')
    if not ok:
        res.violation('history is not linearizable against the sequential map',
                      dict(extra, label=label, history=[
                          {k: o[k] for k in ('client', 'op', 'args', 'call', 'ret', 'kind', 'result')} for o in ops],
                          checker=info))
        return False
    return True


def mode_a(dc, sc, res, rng, tier, label, variant):
    nclients = rng.randrange(2, 5)
    keys, init, prog = gen_program(rng, nclients)
    shared = rng.random() < 0.5
    settings = {'disk_min_file_size': T, 'timeout': 0}
    expired_keys = []
    lazy_cull = 0
    if variant == 'expired':
        # some keys are present but already expired (never culled: cull_limit 0): to every operation they are absent,
        # and add / incr over them rewrite the row in place - atomically
        # half of the runs leave lazy culling on: a write then removes the expired rows it comes across (also the row of
        # the key it is about to write, seeded/C05-11); len and iteration are not part of these programs
        settings['cull_limit'] = 0
        lazy_cull = rng.choice([0, 10])       # switched on after the expired rows are planted (a store culls itself otherwise)
        res.count('expired_present_keys_with_lazy_culling' if lazy_cull else 'expired_present_keys_never_culled')
        expired_keys = [k for k in keys if rng.random() < 0.7]
        for k in expired_keys:
            init.pop(k, None)
        prog = [[o for o in ops if o[0] not in ('len', 'iter', 'iter_open', 'iter_rest')] or [('get', (keys[0], 'MISS'), {})] for ops in prog]
    if variant == 'rollbacks':
        # removals of file-backed values next to calls that wait for the lock and then give up inside their transaction
        # (KeyError of `del` on a key that is not there, TypeError of incr on text): what a waiting call of the same
        # object does with its transaction must not leak into the call that holds the lock
        shared = True
        for k in keys:
            if k != 'n':
                init[k] = stamp(9, len(init), True)
        for ci, ops in enumerate(prog):
            for j in range(len(ops)):
                r = rng.random()
                k = rng.choice(keys)
                if r < 0.3 and k != 'n':
                    ops[j] = ('pop', (k, 'MISS'), {})
                elif r < 0.45 and k != 'n':
                    ops[j] = ('set', (k, stamp(ci, 500 + j, True)), {})
                elif r < 0.6:
                    ops[j] = ('delitem', ('never-stored',), {})
                elif r < 0.7 and k != 'n':
                    ops[j] = ('incr', (k, 1), {})
        prog = [[o for o in ops if o[0] not in ('iter_open', 'iter_rest')] for ops in prog]
        res.count('schedules_with_rollbacks_of_waiting_calls')
    line_codes = None
    if variant == 'lines':
        # statement-level interleaving of threads that share ONE Cache object: every statement of the Cache class is a
        # scheduling point (sys.monitoring), so what the object keeps in attributes between two statements is exposed
        # to the other threads' calls; calls that read such state back (len, counters) are frequent here
        shared = True
        line_codes = code_objects(dc.Cache)
        for ci, ops in enumerate(prog):
            for j in range(len(ops)):
                r = rng.random()
                if r < 0.3:
                    ops[j] = ('len', (), {})
                elif r < 0.4:
                    ops[j] = ('contains', (rng.choice(keys),), {})
        prog = [[o for o in ops if o[0] not in ('iter_open', 'iter_rest')] for ops in prog]
        res.count('schedules_interleaved_at_statement_level')
    if variant == 'lru':
        settings['eviction_policy'] = rng.choice(['least-recently-used', 'least-frequently-used'])
        settings['statistics'] = rng.random() < 0.5
    d = sc.new()
    clock = probe.set_clock(probe.VClock())
    # the same calls through a sharded cache (one or two shards) in a fifth of the plain / rollback schedules: every
    # call goes to the shard of its key and is atomic there
    sharded = variant in ('plain', 'rollbacks') and rng.random() < 0.2
    nsh = rng.choice([1, 2])
    if sharded:
        res.count('schedules_through_a_sharded_cache')
        prog = [[o for o in ops if o[0] not in ('iter_open', 'iter_rest')] for ops in prog]

    def open_handle(**kw):
        return dc.FanoutCache(d, shards=nsh, **kw) if sharded else dc.Cache(d, **kw)
    setup = open_handle(**settings)
    for k in expired_keys:
        setup.set(k, stamp(8, 0, rng.random() < 0.5) if k != 'n' else 3, expire=-1)
        res.count('expired_present_keys')
    for k, v in init.items():
        setup.set(k, v)
        if isinstance(v, str) and len(v) >= T:
            res.count('file_backed_values')
    if expired_keys and lazy_cull:
        setup.reset('cull_limit', lazy_cull)
    # clients with their own handle open it (and sometimes re-open it) inside the scheduled run, while the others are
    # in the middle of their operations: opening a handle is part of using the directory and must not disturb them
    late = (not shared) and rng.random() < 0.6
    caches = [setup if shared else None if late else open_handle(timeout=0) for _ in range(nclients)]
    reopen_at = [rng.randrange(0, len(prog[ci]) + 1) if late and rng.random() < 0.5 else -1 for ci in range(nclients)]
    opened = []
    p_enclosed = 0.5 if variant == 'rollbacks' else 0.1
    enclosed = {(ci, j) for ci, ops in enumerate(prog) for j, o in enumerate(ops)
                if o[0] not in ('iter', 'iter_open', 'iter_rest', 'len') and rng.random() < p_enclosed}
    res.count('calls_joining_an_enclosing_transaction', len(enclosed))
    strategy = rng.choice(['random', 'random', 'preempt', 'preempt', 'roundrobin', 'ops', 'ops'])
    pts = {rng.randrange(0, 120) for _ in range(rng.randrange(1, 4))}
    if line_codes:
        strategy = rng.choice(['random', 'preempt', 'preempt'])
        pts = {rng.randrange(0, 2500) for _ in range(rng.randrange(2, 7))}
        # either every statement is a gate, or only those that store an attribute (and the one after each): fewer gates,
        # so that random scheduling reaches the few interleavings that matter with a useful probability
        only_stores = rng.random() < 0.6
        if only_stores:
            strategy = 'random'
        res.count('schedules_gated_at_attribute_stores' if only_stores else 'schedules_gated_at_every_statement')
        sch = Sched(rng, clock, strategy=strategy, preempt_points=pts, max_steps=150000, line_codes=line_codes,
                    only_stores=only_stores)
    else:
        sch = Sched(rng, clock, strategy=strategy, preempt_points=pts)
    rec = Recorder(sch)

    def client(ci):
        def run():
            cache = caches[ci]
            if cache is None:
                cache = open_handle(timeout=0)
                opened.append(cache)
            for j, (op, args, kw) in enumerate(prog[ci]):
                if j == reopen_at[ci]:
                    cache = open_handle(timeout=0)
                    opened.append(cache)
                if (ci, j) in enclosed:
                    # the same individual call, made inside an enclosing transaction of its thread (it joins that
                    # transaction instead of locking again): to everybody else still one atomic operation
                    def inside(cache=cache, op=op, args=args, kw=kw):
                        with cache.transact(retry=True):
                            return do_op(cache, op, args, kw)
                    rec.call(ci, op, args, inside, kw)
                else:
                    rec.call(ci, op, args, lambda: do_op(cache, op, args, kw), kw)
        return run

    try:
        completed = sch.run([client(i) for i in range(nclients)])
        errs = sch.errors()
        extra = {'shared_object': shared, 'variant': variant, 'strategy': strategy, 'init': init, 'program': prog,
                 'trace_hash': sch.trace_hash(), 'trace_len': len(sch.trace)}
        if errs:
            res.violation('client thread died: %s' % (errs[0][1][1][-400:],), dict(extra, label=label))
            return
        if not completed:
            res.count('schedules_hit_step_cap')
            return
        res.count('schedules_shared_object' if shared else 'schedules_separate_objects')
        res.count('handles_opened_during_schedules', len(opened))
        res.count('partly_consumed_iterations', sum(1 for ops in prog for o in ops if o[0] == 'iter_open'))
        if variant == 'lru':
            res.count('lru_stat_schedules')
        res.count('lock_waits_observed', sch.lock_waits)
        res.count('statement_level_gates_passed', sch.line_events)
        for ops in prog:
            for op, args, kw in ops:
                if op in ('set', 'add', 'setitem') and isinstance(args[1], str) and len(args[1]) >= T:
                    res.count('file_backed_values')
        if sch.preemptions_in_op:
            res.seen('schedules_with_preemption_in_op', sch.trace_hash())
        # final read-out through a fresh handle, appended as reads
        probe.set_controller(None)
        fresh = open_handle()
        ops = list(rec.ops)
        t = sch.tick + 10
        for k in keys:
            v = fresh.get(k, 'MISS')
            ops.append({'client': 99, 'op': 'get', 'args': (k, 'MISS'), 'kw': {}, 'call': t, 'ret': t + 1,
                        'kind': 'ok', 'result': v})
            t += 2
        if variant != 'expired':
            ops.append({'client': 99, 'op': 'len', 'args': (), 'kw': {}, 'call': t, 'ret': t + 1, 'kind': 'ok',
                        'result': len(fresh)})
        fresh.close()
        # every completed operation took effect as a whole: rows, counters and value files agree once all are done
        problems = [p for sd in ([os.path.join(d, '%03d' % i) for i in range(nsh)] if sharded else [d])
                    for p in observe.invariant(sd)]
        res.count('quiescent_states_inspected')
        if problems:
            res.violation('after all clients finished their operations: %r' % (problems[:3],), dict(extra, label=label))
            return
        ok = judge_history(res, ops, init, label, keys, extra)
        if ok and len(res.samples) < 2 and sch.preemptions_in_op:
            res.sample({'label': label, 'program': prog, 'init': init, 'shared_object': shared,
                        'trace_head': sch.trace[:40], 'preemptions_in_op': sch.preemptions_in_op})
    finally:
        probe.set_controller(None)
        for c in (set(caches) | {setup} | set(opened)) - {None}:
            try:
                c.close()
            except Exception:     # noqa: BLE001
                pass
        sc.drop(d)


# ------------------------------------------------------------------- mode B
CHILD = r'''
import json, os, random, sys, time
sys.path.insert(0, %(verif)r)
from vf import common, probe
dc = common.use_repo()
probe.install(audit=False)
d, ci, seed, nops, T = sys.argv[1], int(sys.argv[2]), int(sys.argv[3]), int(sys.argv[4]), int(sys.argv[5])
rng = random.Random(seed * 1000 + ci)
class Delay:
    def gate(self, label, info=None):
        if rng.random() < 0.15:
            time.sleep(rng.random() * 0.002)
probe.set_controller(Delay())
sys.path.insert(0, %(verif)r)
from vf.checks import c05
cache = dc.Cache(d, timeout=60)
out = c05.free_client(cache, ci, rng, nops, T, reopen=lambda: dc.Cache(d, timeout=60))
print(json.dumps(out))
'''


def free_client(cache, ci, rng, nops, Tt, reopen=None):
    keys = ['a', 'b', 'n', 'c'][:3]
    out = []
    for n in range(nops):
        k = rng.choice(keys)
        r = rng.random()
        if k == 'n':
            if r < 0.6:
                op, args = 'incr', (k, rng.choice([1, 2, 3]))
            elif r < 0.8:
                op, args = 'get', (k, 'MISS')
            else:
                op, args = 'decr', (k, 1)
        elif r < 0.3:
            op, args = 'set', (k, stamp(ci, n, rng.random() < 0.5))
        elif r < 0.45:
            op, args = 'add', (k, stamp(ci, n, rng.random() < 0.5))
        elif r < 0.7:
            op, args = 'get', (k, 'MISS')
        elif r < 0.82:
            op, args = 'pop', (k, 'MISS')
        elif r < 0.92:
            op, args = 'delete', (k,)
        else:
            op, args = 'contains', (k,)
        if reopen is not None and rng.random() < 0.04:
            cache = reopen()
        t0 = time.monotonic_ns()
        try:
            kind, result = 'ok', do_op(cache, op, args, {})
        except Exception as exc:    # noqa: BLE001
            kind, result = 'raise', type(exc).__name__
        t1 = time.monotonic_ns()
        out.append({'client': ci, 'op': op, 'args': list(args), 'kw': {}, 'call': t0, 'ret': t1, 'kind': kind,
                    'result': result})
    return out


def mode_b(dc, sc, res, rng, seed, topo, label, nclients, nops):
    d = sc.new()
    # free runs also cover rollback-journal databases, where a committing writer keeps readers out for a moment
    journal = rng.choice(['wal', 'wal', 'delete', 'truncate', 'persist'])
    res.count('free_runs_journal_' + ('wal' if journal == 'wal' else 'rollback'))
    setup = dc.Cache(d, disk_min_file_size=T, **common.journal_kw(journal))
    setup.close()
    ops = []
    if topo == 'processes':
        code = CHILD % {'verif': common.VERIF}
        procs = []
        env = dict(os.environ, VF_REPO=common.REPO, PYTHONDONTWRITEBYTECODE='1')
        for ci in range(nclients):
            procs.append(subprocess.Popen([common.PY, '-c', code, d, str(ci), str(seed), str(nops), str(T)],
                                          stdout=subprocess.PIPE, stderr=subprocess.PIPE, env=env))
        for p in procs:
            try:
                so, se = p.communicate(timeout=300)
            except subprocess.TimeoutExpired:
                p.kill()
                res.inconclusive.append('free-running process hit the watchdog')
                return
            if p.returncode != 0:
                res.violation('client process died: %s' % se.decode()[-500:], {'label': label})
                return
            for o in json.loads(so):
                o['args'] = tuple(o['args'])
                ops.append(o)
        res.count('free_runs_processes')
    else:
        shared = dc.Cache(d, timeout=60) if topo == 'threads_shared' else None
        import random as _r

        class Delay:
            def __init__(self):
                self.rng = _r.Random(seed)

            def gate(self, label, info=None):
                if self.rng.random() < 0.1:
                    time.sleep(self.rng.random() * 0.001)
        probe.set_controller(Delay())
        outs = [None] * nclients

        def worker(ci):
            cache = shared or dc.Cache(d, timeout=60)
            outs[ci] = free_client(cache, ci, _r.Random(seed * 1000 + ci), nops, T,
                                   reopen=None if shared else (lambda: dc.Cache(d, timeout=60)))
        ths = [threading.Thread(target=worker, args=(i,)) for i in range(nclients)]
        for th in ths:
            th.start()
        for th in ths:
            th.join(300)
        probe.set_controller(None)
        if any(o is None for o in outs):
            res.inconclusive.append('free-running thread did not finish')
            return
        for o in outs:
            for x in o:
                x['args'] = tuple(x['args'])
            ops.extend(o)
        if shared:
            shared.close()
        res.count('free_runs_threads')
    # final read-out
    fresh = dc.Cache(d)
    t = max(o['ret'] for o in ops) + 1000
    keys = ['a', 'b', 'n']
    for k in keys:
        ops.append({'client': 99, 'op': 'get', 'args': (k, 'MISS'), 'kw': {}, 'call': t, 'ret': t + 1, 'kind': 'ok',
                    'result': fresh.get(k, 'MISS')})
        t += 2
    n_len, n_iter = len(fresh), len(list(fresh))
    fresh.close()
    sc.drop(d)
    if n_len != n_iter:
        # at quiescence the item count is the number of items: a difference is an update some completed call lost
        res.violation('after a free-running %s run len() is %d but %d keys are present' % (topo, n_len, n_iter),
                      {'label': label, 'journal_mode': journal})
        return
    # overlap statistics
    overl = 0
    srt = sorted(ops, key=lambda o: o['call'])
    for i, o in enumerate(srt):
        for w in srt[i + 1:i + 8]:
            if w['call'] < o['ret'] and w['client'] != o['client']:
                overl += 1
    res.count('overlapping_pairs_mode_b', overl)
    if overl:
        res.seen('free_runs_with_overlap', (label, overl))
    for o in ops:
        if o['kind'] == 'raise' and o['result'] not in ALLOWED_EXC.get(o['op'], ()):
            res.violation('%s raised %s in a free-running %s run' % (o['op'], o['result'], topo),
                          {'label': label, 'journal_mode': journal})
            return
    # P-compositionality: check each key's sub-history on its own
    for k in keys:
        sub = [o for o in ops if o['args'] and o['args'][0] == k]
        kept, dropped = lin.drop_tolerated_misses(sub, lookup_info)
        res.count('tolerated_misses', dropped)
        try:
            ok, info = lin.check(kept, (), lin.kv_step, timeout=20.0, max_nodes=3000000)
        except lin.Timeout:
            res.count('linearizability_search_timeouts')
            continue
        res.count('histories_checked')
        res.count('evaluations')
        if not ok:
            res.violation('per-key history of %r from a free-running %s run is not linearizable' % (k, topo),
                          {'label': label, 'journal_mode': journal, 'checker': info, 'history': [
                              {x: o[x] for x in ('client', 'op', 'args', 'call', 'ret', 'kind', 'result')}
                              for o in sorted(sub, key=lambda o: o['call'])][:200]})
            return


# ------------------------------------------------ mode C: commits kept waiting (rollback journal, retry off)
def commit_contention(dc, sc, res, rng, label):
    """A rollback-journal directory, reader threads that keep looking things up, and ONE writer whose calls give up at
    once (timeout 0, retry off).  A call that raises Timeout - at BEGIN or, because a reader holds off the exclusive
    lock, at COMMIT - has no effect: the key keeps the value of the last call that returned, and afterwards rows,
    counters and files agree."""
    from .. import observe
    journal = rng.choice(['delete', 'truncate', 'persist'])
    d = sc.new()
    setup = dc.Cache(d, disk_min_file_size=T, sqlite_journal_mode=journal)
    keys = ['a', 'b', 'c']
    expected = {}
    for k in keys[:2]:
        expected[k] = stamp(9, len(expected), True)
        setup.set(k, expected[k])
    setup.close()
    writer = dc.Cache(d, timeout=0)
    look = dc.Cache(d, timeout=5)
    stop = threading.Event()
    errors = []

    def reader():
        c = dc.Cache(d, timeout=5)
        try:
            while not stop.is_set():
                k = rng.choice(keys)
                c.get(k)
                k in c
                len(c)
        except Exception as exc:      # noqa: BLE001
            errors.append(repr(exc))
        finally:
            c.close()
    threads = [threading.Thread(target=reader) for _ in range(2)]
    for th in threads:
        th.start()
    timeouts = 0
    wit = {'label': label, 'journal_mode': journal}
    try:
        for n in range(60):
            k = rng.choice(keys)
            r = rng.random()
            v = stamp(1, n, rng.random() < 0.7)
            try:
                if r < 0.6:
                    writer.set(k, v)
                    expected[k] = v
                elif r < 0.8:
                    if writer.add(k, v):
                        expected[k] = v
                else:
                    writer.delete(k)
                    expected.pop(k, None)
            except dc.Timeout:
                timeouts += 1
            except Exception as exc:      # noqa: BLE001
                res.violation('a write with retry off raised %s (%s) under commit contention' % (type(exc).__name__, exc),
                              dict(wit, call=n))
                return
            got = look.get(k, 'MISS')
            if got != expected.get(k, 'MISS'):
                res.violation('after a write that %s, key %r reads %r, the last call that returned left %r' % (
                    'raised Timeout' if timeouts else 'returned', k, str(got)[:20], str(expected.get(k, 'MISS'))[:20]),
                    dict(wit, call=n, timeouts_so_far=timeouts))
                return
    finally:
        stop.set()
        for th in threads:
            th.join(30)
    res.count('evaluations')
    res.count('commit_contention_runs')
    res.count('timeouts_under_commit_contention', timeouts)
    if errors:
        res.violation('a reader raised under commit contention: %s' % errors[0], wit)
    problems = observe.invariant(d)
    warns = [str(w.message) for w in look.check()]
    if problems or warns:
        res.violation('after a run with %d timed-out writes: %r' % (timeouts, (problems + warns)[:3]), wit)
    writer.close()
    look.close()
    sc.drop(d)


# ---------------------- mode D: one shared Cache object, statement-level change points enumerated (preemption bound 2)
SHARED_OPS = [('set', ('a', 'S1'), {}), ('set', ('a', 'S2' * 40), {}), ('add', ('a', 'A1'), {}), ('incr', ('n', 1), {}),
              ('pop', ('a', 'MISS'), {}), ('delete', ('a',), {}), ('len', (), {}), ('len', (), {}), ('contains', ('a',), {}),
              ('get', ('a', 'MISS'), {}), ('touch', ('a',), {}), ('delitem', ('never-stored',), {})]


def shared_object_plans(dc, sc, res, rng, label, prog, init, budget, part=(0, 1), gates=True):
    """Two threads share ONE Cache object.  Gates: SQL statements, file operations and every statement of the Cache
    class that stores an attribute (plus the statement after it) - the places where a thread publishes state on the
    shared object.  The thread that runs keeps running; control changes hands only at planned statement gates.  All plans
    with at most two change points are run (or `budget` of them, sampled): a bounded-exhaustive exploration of how the two
    threads can interleave around the object's in-memory state.  Every schedule is judged like any other C05 history."""
    codes = code_objects(dc.Cache)
    d = sc.new()
    keys = ['a', 'n']
    seen = set()
    try:
        cache = dc.Cache(d, disk_min_file_size=T, timeout=0)

        def run(plan, start):
            cache.clear()
            for k, v in init.items():
                cache.set(k, v)
            clock = probe.set_clock(probe.VClock())
            sch = Sched(rng, clock, strategy='plan', max_steps=20000, line_codes=codes, only_stores=gates)
            sch.plan, sch.start = plan, start
            rec = Recorder(sch)

            def client(ci):
                def body():
                    for op, args, kw in prog[ci]:
                        rec.call(ci, op, args, lambda: do_op(cache, op, args, kw), kw)
                return body
            completed = sch.run([client(0), client(1)])
            probe.set_controller(None)
            extra = {'shared_object': True, 'program': prog, 'init': init, 'change_points': sorted(plan.items()),
                     'first_client': start, 'statement_gates': sch.line_count, 'trace_hash': sch.trace_hash()}
            errs = sch.errors()
            if errs:
                res.violation('client thread died: %s' % (errs[0][1][1][-400:],), dict(extra, label=label))
                return None
            if not completed:
                res.count('schedules_hit_step_cap')
                return sch.line_count
            h = sch.trace_hash()
            if h in seen:
                return sch.line_count
            seen.add(h)
            res.seen('shared_object_schedules', h)
            res.count('shared_object_schedules_judged')
            res.count('statement_level_gates_passed', sch.line_events)
            ops = list(rec.ops)
            t = sch.tick + 10
            fresh = dc.Cache(d)
            try:
                for k in keys:
                    ops.append({'client': 99, 'op': 'get', 'args': (k, 'MISS'), 'kw': {}, 'call': t, 'ret': t + 1,
                                'kind': 'ok', 'result': fresh.get(k, 'MISS')})
                    t += 2
                ops.append({'client': 99, 'op': 'len', 'args': (), 'kw': {}, 'call': t, 'ret': t + 1, 'kind': 'ok',
                            'result': len(fresh)})
            finally:
                fresh.close()
            if not judge_history(res, ops, init, label, keys, extra):
                return None
            return sch.line_count

        plans = []
        for start in (0, 1):
            n = run({}, start)
            if n is None:
                return
            other = 1 - start
            plans += [({a: other}, start) for a in range(1, n + 3)]
            plans += [({a: other, b: start}, start) for a in range(1, n + 3) for b in range(a + 1, n + 6)]
        plans = plans[part[0]::part[1]]          # (the plans of one program may be divided among several workers)
        if len(plans) > budget:
            plans = rng.sample(plans, budget)
            res.count('shared_object_programs_sampled')
        else:
            res.count('shared_object_programs_exhausted_to_bound_2')
        for plan, start in plans:
            if run(plan, start) is None:
                return
        res.count('shared_object_programs')
    finally:
        probe.set_controller(None)
        try:
            cache.close()
        except Exception:      # noqa: BLE001
            pass
        sc.drop(d)


# ------------------------------------------------ mode E: forked workers that inherited the parent's Cache object
def forked_workers(dc, sc, res, rng, label):
    """The parent opens a Cache, uses it, and forks workers that go on with the object they inherited (what
    multiprocessing with the fork start method does); the parent closes its handle while they work.  Every completed
    incr / add of every worker is there afterwards, and no worker touched the connection its parent had opened."""
    import json as _json
    d = sc.new()
    probe.install()
    probe.set_clock(None)
    cache = dc.Cache(d, disk_min_file_size=T, timeout=60)
    nworkers, rounds = rng.randrange(2, 4), rng.randrange(15, 40)
    journal = rng.choice(['wal', 'wal', 'delete'])
    if journal != 'wal':
        cache.close()
        cache = dc.Cache(d, disk_min_file_size=T, timeout=60, sqlite_journal_mode=journal)
    cache.set('n', 0)
    cache.get('n')
    go_r, go_w = os.pipe()
    pids = []
    try:
        for w in range(nworkers):
            pid = os.fork()
            if pid == 0:
                code = 0
                try:
                    os.close(go_w)
                    probe.PROBE.foreign_pid_uses = 0
                    done = {'incr': 0, 'added': []}
                    for i in range(rounds):
                        if i == rounds // 2:
                            os.read(go_r, 1)          # wait until the parent has closed its own handle
                        cache.incr('n', 1, retry=True)
                        done['incr'] += 1
                        k = 'w%d-%d' % (w, i)
                        if cache.add(k, stamp(w, i, i % 3 == 0), retry=True):
                            done['added'].append(k)
                    done['foreign'] = probe.PROBE.foreign_pid_uses
                    with open('%s.w%d' % (d, w), 'w') as f:
                        _json.dump(done, f)
                except BaseException:      # noqa: BLE001
                    import traceback
                    traceback.print_exc()
                    code = 3
                os._exit(code)
            pids.append(pid)
        time.sleep(0.05 * rng.random())
        parent_closes = rng.random() < 0.5
        if parent_closes:
            cache.close()                   # the only connection this process itself had opened
        os.write(go_w, b'x' * nworkers)
        statuses = [os.waitpid(pid, 0)[1] for pid in pids]
        wit = {'label': label, 'workers': nworkers, 'rounds': rounds, 'journal_mode': journal,
               'parent_closed_its_handle_meanwhile': parent_closes}
        reports = []
        for w in range(nworkers):
            path = '%s.w%d' % (d, w)
            if statuses[w] != 0 or not os.path.exists(path):
                res.violation('a forked worker could not use the Cache object it inherited (status %r)' % (statuses[w],), wit)
                return
            with open(path) as f:
                reports.append(_json.load(f))
            os.unlink(path)
        res.count('fork_runs')
        res.count('evaluations')
        if any(r['foreign'] for r in reports):
            res.violation('forked workers used the SQLite connection opened by their parent for %r statement(s)' % (
                [r['foreign'] for r in reports],), wit)
            return
        if parent_closes:
            # (SQLite documents that a connection must not be carried across fork(); the library's answer is to drop the
            # inherited connection in the child, which the sanitizer above has just confirmed.  What the inherited,
            # lock-less copy of a connection does to the WAL when the child closes it while the parent closes the original
            # is SQLite's business and was seen to lose data once in some thousand runs on the unchanged tree - section
            # 7.32 - so the contents are compared only in the runs where the parent keeps its handle open.)
            res.count('fork_runs_parent_closed_meanwhile')
            return
        fresh = dc.Cache(d)
        try:
            total = fresh.get('n')
            want = sum(r['incr'] for r in reports)
            missing = [k for r in reports for k in r['added'] if k not in fresh]
            if total != want or missing or len(fresh) != 1 + sum(len(r['added']) for r in reports):
                res.violation('after forked workers finished, the counter reads %r (completed incr calls: %d), %d added keys are '
                              'missing, len is %d' % (total, want, len(missing), len(fresh)), dict(wit, missing=missing[:5]))
                return
            problems = observe.invariant(d)
            if problems:
                res.violation('after forked workers finished: %r' % (problems[:3],), wit)
        finally:
            fresh.close()
    finally:
        for fd in (go_r, go_w):
            try:
                os.close(fd)
            except OSError:
                pass
        try:
            cache.close()
        except Exception:      # noqa: BLE001
            pass
        sc.drop(d)


def run_shard(tier, seed, shard, nshards, res):
    dc = common.use_repo()
    probe.install()
    n_a = 100 if tier == 'quick' else 1000
    with common.Scratch() as sc:
        for i in range(n_a):
            rng = common.rng_for(seed, 'c05a', shard, i)
            variant = 'lru' if i % 5 == 4 else 'expired' if i % 5 == 2 else 'rollbacks' if i % 5 == 3 else 'lines' if i % 5 == 1 else 'plain'
            mode_a(dc, sc, res, rng, tier, 'c05 A seed=%d shard=%d i=%d' % (seed, shard, i), variant)
            if res.new_violations() > 5:
                return
        # mode D: programs are taken in rotation from all (2 calls | 1 call) combinations of the pool, so that repeated
        # runs (other seeds, the thorough tier) walk through all of them
        combos = [(a, b, c) for a in range(len(SHARED_OPS)) for b in range(len(SHARED_OPS)) for c in range(len(SHARED_OPS))]
        # quick tier: four designated programs (a write, then a call that reads the object's counters | the same kind of
        # call in the other thread), each explored exhaustively to the bound by four workers that share its plans, plus
        # one program from the rotation, sampled; thorough tier (64 workers): the same plus two programs per worker, with function entries as further change
        # points, 2 500 plans each
        n_d = 2 if tier == 'quick' else 3
        for i in range(n_d):
            rng = common.rng_for(seed, 'c05d', shard, i)
            a, b, c = combos[(seed * 7919 + (shard * n_d + i) * 131) % len(combos)]
            part, budget = (0, 1), (120 if tier == 'quick' else 2500)
            init = {} if rng.random() < 0.5 else {'a': 'I0' * 40, 'n': 5}
            if i == 0:
                a, b, c = [(0, 6, 6), (3, 6, 6), (4, 6, 8), (2, 6, 9)][shard % 4]
                part, budget = (shard // 4 % 4, 4), (10**9 if tier == 'quick' else 2500)
                init = {} if (seed + shard) % 2 == 0 else {'a': 'I0' * 40, 'n': 5}
                rng = common.rng_for(seed, 'c05d', shard % 4, i)
            prog = [[SHARED_OPS[a], SHARED_OPS[b]], [SHARED_OPS[c]]]
            shared_object_plans(dc, sc, res, rng, 'c05 D seed=%d shard=%d i=%d' % (seed, shard, i), prog, init,
                                budget=budget, part=part, gates=True if tier == 'quick' else 'with entries')
            if res.new_violations() > 5:
                return
        probe.reset()
        n_b = 2 if tier == 'quick' else 12
        for i in range(n_b):
            rng = common.rng_for(seed, 'c05b', shard, i)
            topo = ['threads_shared', 'threads_separate', 'processes'][(shard + i) % 3]
            mode_b(dc, sc, res, rng, seed * 100 + shard * 10 + i, topo,
                   'c05 B seed=%d shard=%d i=%d topo=%s' % (seed, shard, i, topo),
                   nclients=rng.randrange(3, 6), nops=rng.randrange(40, 90))
        # a lookup that overlaps 'remove A, store B' by another client (the adversarial scheduler lets the other client
        # finish right before the reader opens A's value file): A's value or a miss, never B's - the tier written for C02
        from . import c02
        for i in range(6 if tier == 'quick' else 80):
            c02.shadow_race(dc, sc, res, common.rng_for(seed, 'c05r', shard, i), 'c05 shadow race seed=%d shard=%d i=%d' % (seed, shard, i))
            res.count('lookups_overlapping_remove_and_store')
        probe.install()
        for i in range(2 if tier == 'quick' else 12):
            forked_workers(dc, sc, res, common.rng_for(seed, 'c05e', shard, i), 'c05 E seed=%d shard=%d i=%d' % (seed, shard, i))
        for i in range(2 if tier == 'quick' else 12):
            rng = common.rng_for(seed, 'c05c', shard, i)
            commit_contention(dc, sc, res, rng, 'c05 C seed=%d shard=%d i=%d' % (seed, shard, i))
