"""C18 - data and settings persist and are shared by every handle on the directory."""

import os
import pickle
import shutil
import subprocess
import sys
import threading

from .. import common, gen, observe, probe
from ..driver import CacheDriver, Mismatch, normalize_out
from ..model import Ambiguous
from ..observe import same
from . import c03

PROP = 'C18'
LEVEL = 'exploration'
RULE = ('C03-style histories on Cache / FanoutCache in which handle events are interleaved at random points: close() then '
        'reuse, a second object opened on the directory with no settings, pickle round trip, a call from a new thread, a '
        'sub-history executed by a fresh interpreter process, a sub-history executed by a forked child on the inherited '
        'object; every call is made through a randomly chosen live handle and all handles must agree with one reference '
        'model; every setting given at creation must read back through later handles and from the Settings table. Deque, '
        'Index and DjangoCache get the same events against deque/OrderedDict/dict references. Format stability: the '
        'golden directories written by the pinned commit are copied, opened by the current tree and read completely '
        'against their manifest; in the write direction the current tree\'s key encoding, stored row columns, routing and '
        'schema are compared with the recorded tables. evaluations = calls judged + golden items compared; '
        'distinct_nontrivial = distinct (container, event kind, position class) cells + golden (directory, key type, '
        'value mode) cells')
DISTINCT = ('event_cells', 'golden_cells')
REQUIRED = ('opens_that_met_the_lock', 'events_iteration_left_open', 'events_second_handle_during_a_call', 'handles_opened_by_spelling_4', 'handles_opened_by_spelling_5', 'calls_judged', 'events_close', 'events_second_handle', 'events_pickle', 'events_thread', 'events_process',
            'events_fork', 'events_reset', 'events_opened_under_exclusive_lock', 'rollback_journal_histories', 'settings_read_back', 'fanout_histories', 'deque_events', 'index_events', 'django_events',
            'golden_items_read', 'golden_rows_compared', 'golden_schema_compared', 'jsondisk_histories')
ASSUMPTIONS = ('the Disk class is a constructor argument, not a stored setting: non-pickle reopen events pass the same '
               'class, as a user must', 'golden/ was written by the pinned commit 5a4f96f (tools/mkgolden.py)')

T = 64
FANOUT_OPS = {'set', 'setitem', 'add', 'get', 'getitem', 'read', 'contains', 'touch', 'incr', 'decr', 'pop', 'delete',
              'delitem', 'len', 'iter', 'reversed', 'expire', 'evict', 'clear', 'stats', 'cull', 'ADV', 'FREEZE'}


def plan(tier):
    return {'nshards': 16 if tier == 'quick' else 48, 'timeout': 900 if tier == 'quick' else 3600}


CHILD = r'''
import pickle, sys
sys.path.insert(0, %(verif)r)
from vf import common, probe
from vf.driver import normalize_out
dc = common.use_repo()
probe.install(audit=False)
spec = pickle.load(open(sys.argv[1], 'rb'))
clock = probe.set_clock(probe.VClock())
clock.ticks = spec['ticks']
kw = {}
if spec['disk'] == 'JSONDisk':
    kw['disk'] = dc.JSONDisk
if spec['kind'] == 'cache':
    h = dc.Cache(spec['directory'], **kw)
else:
    h = dc.FanoutCache(spec['directory'], shards=spec['shards'], **kw)
from vf.checks import c18
out = c18.run_ops(h, spec['ops'], clock, spec['kind'])
h.close()
pickle.dump({'records': out, 'ticks': clock.ticks}, open(sys.argv[2], 'wb'))
'''


def run_ops(handle, ops, clock, kind):
    """Execute ops on `handle`; return [(op, args, kw, got, reads)]."""
    import io
    out = []
    for op, args, kw in ops:
        clock.begin()
        a = list(args)
        k = dict(kw)
        if k.get('read') and op in ('set', 'add'):
            a[1] = io.BytesIO(a[1])
        try:
            if op == 'setitem':
                handle[a[0]] = a[1]
                r = None
            elif op == 'getitem':
                r = handle[a[0]]
            elif op == 'delitem':
                del handle[a[0]]
                r = None
            elif op == 'contains':
                r = a[0] in handle
            elif op == 'len':
                r = len(handle)
            elif op == 'iter':
                r = list(handle)
            elif op == 'reversed':
                r = list(reversed(handle))
            elif op == 'expire' and kind == 'fanout':
                r = handle.expire()
            elif op == 'iterkeys':
                r = list(handle.iterkeys(*a, **k))
            else:
                r = getattr(handle, op)(*a, **k)
            got = ('ok', normalize_out(r))
        except Exception as exc:       # noqa: BLE001
            got = ('raise', type(exc))
        out.append((op, tuple(args), dict(kw), got, list(clock.reads)))
    return out


SETTINGS_POOL = [
    {'eviction_policy': 'least-recently-used', 'statistics': True, 'tag_index': True, 'cull_limit': 3,
     'size_limit': 2**27, 'disk_min_file_size': T, 'disk_pickle_protocol': 3, 'sqlite_cache_size': 4096,
     'sqlite_mmap_size': 2**20, 'sqlite_synchronous': 2},
    {'eviction_policy': 'none', 'statistics': False, 'tag_index': False, 'cull_limit': 0, 'size_limit': 2**29,
     'disk_min_file_size': 0, 'disk_pickle_protocol': 2},
    {'eviction_policy': 'least-frequently-used', 'statistics': True, 'cull_limit': 10, 'disk_min_file_size': T,
     'disk_pickle_protocol': 5, 'sqlite_auto_vacuum': 1},
    {'eviction_policy': 'least-recently-stored', 'disk_min_file_size': 200, 'cull_limit': 1, 'disk_pickle_protocol': 4},
]


class ExclusiveHolder:
    """A plain SQLite connection per database file holding a lock that also keeps readers out (what a committing
    writer of a rollback-journal database, a backup tool or a connection in exclusive locking mode holds)."""

    def __init__(self, dirs, wal):
        import sqlite3
        self.cons = []
        try:
            for sd in dirs:
                con = sqlite3.connect(os.path.join(sd, 'cache.db'), isolation_level=None, timeout=0)
                self.cons.append(con)
                if wal:
                    con.execute('PRAGMA locking_mode = EXCLUSIVE').fetchall()
                con.execute('BEGIN EXCLUSIVE')
        except sqlite3.OperationalError:
            self.release()
            raise

    def release(self):
        for con in self.cons:
            try:
                con.execute('ROLLBACK')
            except Exception:      # noqa: BLE001
                pass
            con.close()
        self.cons = []


class ReleaseAfterFailures:
    """Probe controller: the lock is taken right before the `take_at`-th statement of the opening handle (0: it is held
    from the start) and let go after the k-th statement of the opening handle has failed."""

    def __init__(self, make_holder, k, take_at=0):
        self.make_holder, self.k, self.take_at = make_holder, k, take_at
        self.failed = self.statements = 0
        self.holder = None
        self.not_obtained = False
        if take_at == 0:
            self.take()

    def take(self):
        import sqlite3
        try:
            self.holder = self.make_holder()
        except sqlite3.OperationalError:
            self.not_obtained = True

    def release(self):
        if self.holder is not None:
            self.holder.release()

    def gate(self, label, info=None):
        if label.startswith('pre:'):
            self.statements += 1
            if self.statements == self.take_at and self.holder is None:
                self.take()
        elif label.startswith('err:') and self.holder is not None:
            self.failed += 1
            if self.failed == self.k:
                self.holder.release()


def locked_open_sweep(dc, sc, res, shard, nshards, tier):
    """A handle is opened on an existing directory while the database becomes locked exclusively right before the k-th
    statement of the opening sequence, for EVERY k, and stays locked until the second failed statement: the open waits and
    succeeds, and the handle sees the data and the settings (rollback journal and WAL, with and without a tag index)."""
    import sqlite3
    for variant, (journal, tag_index) in enumerate([('delete', False), ('wal', False), ('truncate', True), ('wal', True)]):
        d = sc.new()
        kw = {} if journal == 'wal' else {'sqlite_journal_mode': journal}
        first = dc.Cache(d, disk_min_file_size=64, tag_index=tag_index, size_limit=2**27, **kw)
        first.set('a', 'A' * 100, tag='t')
        first.set('n', 5)
        first.close()
        # dry run: how many statements does opening take?
        counter = ReleaseAfterFailures(lambda: None, 10**9, take_at=10**9)
        probe.set_controller(counter)
        try:
            dc.Cache(d, timeout=0.02).close()
        finally:
            probe.set_controller(None)
        total = counter.statements
        for k in range(1, total + 1):
            if (k + variant) % nshards != shard:
                continue
            ctrl = ReleaseAfterFailures(lambda: ExclusiveHolder([d], journal == 'wal'), 2, take_at=k)
            probe.set_controller(ctrl)
            h = None
            try:
                try:
                    h = dc.Cache(d, timeout=0.02)
                    got = None
                except (sqlite3.OperationalError, dc.Timeout) as exc:
                    got = ('raise', '%s: %s' % (type(exc).__name__, exc))
            finally:
                probe.set_controller(None)
                ctrl.release()
            if h is not None:
                got = ('ok', (h.get('a'), h.get('n'), h.tag_index, h.size_limit))      # (read once the lock is gone)
                h.close()
            res.count('evaluations')
            res.count('opens_with_the_database_locked_from_statement_k')
            if ctrl.failed:
                res.count('opens_that_met_the_lock')
            want = ('ok', ('A' * 100, 5, int(tag_index), 2**27))
            if got != want and not ctrl.not_obtained:
                res.violation('opening a handle while the database is locked exclusively from statement %d of %d on (journal %s, '
                              'tag index %s; released after the 2nd failed statement): %r' % (k, total, journal, tag_index, got),
                              {'statement': k, 'journal_mode': journal, 'tag_index': tag_index})
        sc.drop(d)
    probe.set_controller(None)


def cache_history(dc, sc, res, rng, kind, label):
    settings = dict(gen.pick(rng, SETTINGS_POOL))
    if rng.random() < 0.4:
        settings['sqlite_journal_mode'] = gen.pick(rng, ['delete', 'truncate', 'persist'])
        res.count('rollback_journal_histories')
    shards = gen.pick(rng, [2, 3]) if kind == 'fanout' else 1
    cfg = dict(settings)
    cfg.setdefault('statistics', False)
    cfg.setdefault('cull_limit', 10)
    cfg.setdefault('eviction_policy', 'least-recently-stored')
    cfg.setdefault('tag_index', False)
    d = sc.new()
    clock = probe.set_clock(probe.VClock())
    drv = CacheDriver(dc, d, cfg, kind=kind, shards=shards, clock=clock)
    handles = [drv.real]
    steps = [s for s in c03.random_history(rng, cfg, rng.randrange(120, 300), wide=False, aliases=(kind == 'cache'))
             if kind == 'cache' or s[0] in FANOUT_OPS]
    # a handle caches its settings when it is opened; switching statistics at run time through one handle is not a
    # "setting the cache was created with" and is not propagated to live handles by design, so it is not generated
    steps = [(op, a, (dict(k, enable=bool(cfg['statistics'])) if op == 'stats' else k)) for op, a, k in steps
             if op not in ('reset', 'create_tag_index', 'drop_tag_index')]
    made = {'n': 0}
    open_iterations = []

    def fresh(**kw):
        import pathlib
        how = rng.randrange(6)
        spelled = [d, d + '/', os.path.join(os.path.dirname(d), '.', os.path.basename(d)), pathlib.Path(d),
                   '${VF_C18_DIR}/' + os.path.basename(d), '~/' + os.path.basename(d)][how]
        res.count('handles_opened_by_spelling_%d' % how)
        # spellings 4 and 5 name the directory through an environment variable / the home directory, which mean this
        # directory only while the handle is being opened: the handle (and what is pickled from it) keeps the directory
        saved = {k: os.environ.get(k) for k in ('VF_C18_DIR', 'HOME')}
        if how == 4:
            os.environ['VF_C18_DIR'] = os.path.dirname(d)
        elif how == 5:
            os.environ['HOME'] = os.path.dirname(d)
        try:
            return dc.Cache(spelled, **kw) if kind == 'cache' else dc.FanoutCache(spelled, shards=shards, **kw)
        finally:
            for k, v in saved.items():
                if v is None:
                    os.environ.pop(k, None)
                else:
                    os.environ[k] = v

    per_shard_limit = {'value': settings.get('size_limit', 2**30) / shards}

    def check_settings(h, where):
        given = dict(settings)
        given['size_limit'] = per_shard_limit['value']
        for k, v in given.items():
            got = getattr(h, k)          # FanoutCache forwards setting names to its first shard
            if got != v:
                raise Mismatch('setting %s reads %r through %s, it was created with %r' % (k, got, where, v), drv.witness())
            res.count('settings_read_back')
        for o in drv.observers:
            st = o.settings()
            for k, v in given.items():
                if st.get(k) != v:
                    raise Mismatch('Settings table holds %s=%r, created with %r' % (k, st.get(k), v), drv.witness())

    try:
        i = 0
        while i < len(steps):
            op, args, kw = steps[i]
            i += 1
            if op == 'ADV':
                clock.advance(args[0])
                continue
            if op == 'FREEZE':
                clock.frozen = args[0]
                if not args[0]:
                    clock.advance(gen.TICK)
                continue
            drv.real = gen.pick(rng, handles)
            if rng.random() < 0.12:
                ev = gen.pick(rng, ['close', 'second', 'pickle', 'thread', 'process', 'fork', 'close', 'second_locked',
                                    'reset', 'second_during_call', 'open_iteration'])
                pos = 'early' if i < len(steps) / 3 else 'late' if i > 2 * len(steps) / 3 else 'middle'
                res.seen('event_cells', (kind, ev, pos))
                drv.history.append(('EVENT', (ev,), {}))
                if ev == 'second_during_call':
                    # (only where the call can wait cooperatively: write-ahead log, so that lookups are never blocked,
                    # and a call that takes retry=True or retries by itself)
                    from ..driver import SIGNATURES
                    waits = (op in SIGNATURES and SIGNATURES[op][1][-1][0] == 'retry') or op in (
                        'setitem', 'getitem', 'delitem', 'contains', 'len')
                    if settings.get('sqlite_journal_mode', 'wal') != 'wal' or not waits:
                        ev = 'second'
                if ev == 'open_iteration':
                    # a loop over the keys is begun through the current handle and left unfinished (the iterator stays
                    # alive): the handle goes on seeing what the others write
                    it = iter(drv.real) if rng.random() < 0.6 else reversed(drv.real)
                    try:
                        next(it)
                    except StopIteration:
                        pass
                    open_iterations.append(it)
                    res.count('events_iteration_left_open')
                elif ev == 'close':
                    drv.real.close()
                    res.count('events_close')
                elif ev == 'second':
                    h = fresh()
                    handles.append(h)
                    check_settings(h, 'a second object opened with no settings')
                    res.count('events_second_handle')
                elif ev == 'second_during_call':
                    # a handle is opened by another thread while this call of the history is in flight (the two are
                    # interleaved statement by statement by the schedule fuzzer): opening reads and writes nothing but
                    # its own settings, so the call, the table and the counters come out as if it had not happened
                    from ..sched import Sched
                    sch = Sched(rng, clock, strategy=rng.choice(['random', 'random', 'preempt']), max_steps=30000,
                                preempt_points={rng.randrange(0, 80) for _ in range(3)})
                    box, opened = [], []
                    caller = fresh(timeout=0)
                    handles.append(caller)
                    drv.real = caller
                    ckw = dict(kw, retry=True) if op in SIGNATURES else kw

                    def the_call():
                        try:
                            drv.step(op, *args, **ckw)
                        except BaseException as exc:      # noqa: BLE001
                            box.append(exc)

                    def the_open():
                        opened.append(fresh(timeout=0))
                    done = sch.run([the_call, the_open])
                    probe.set_controller(None)
                    handles.extend(opened)
                    if box:
                        raise box[0]
                    errs = sch.errors()
                    if errs or not done or not opened:
                        raise Mismatch('a handle could not be opened while a call was in flight: %s' % (
                            errs[0][1][1][-300:] if errs else 'schedule did not finish'), drv.witness())
                    res.count('events_second_handle_during_a_call')
                    res.count('calls_judged')
                    res.count('evaluations')
                    check_settings(opened[0], 'an object opened while a call was in flight')
                    continue
                elif ev == 'second_locked':
                    # a handle is opened while the database files are locked against readers too - from the start, or
                    # from one of the statements of the opening sequence on; the lock goes away after the second or
                    # third statement of the opening handle has failed
                    wal = settings.get('sqlite_journal_mode', 'wal') == 'wal'
                    ctrl = ReleaseAfterFailures(lambda: ExclusiveHolder(drv.shard_dirs, wal), rng.randrange(2, 4),
                                                take_at=rng.choice([0, 0] + list(range(1, 70))))
                    probe.set_controller(ctrl)
                    try:
                        # (a short busy timeout: SQLite's own waiting, once the handle has its real timeout, is in
                        # wall-clock time, and nobody else runs while this thread waits)
                        h = fresh(timeout=0.02)
                    finally:
                        probe.set_controller(None)
                        ctrl.release()
                    handles.append(h)
                    if ctrl.not_obtained:
                        res.count('exclusive_lock_not_obtained')
                    if ctrl.failed:
                        res.count('events_opened_under_exclusive_lock')
                        res.seen('event_cells', (kind, 'locked-from-statement', min(ctrl.take_at, 70) // 5))
                    check_settings(h, 'an object opened while the database was locked exclusively')
                elif ev == 'reset':
                    # a setting is changed through whichever handle is current (its own cached copy may be stale: another
                    # handle may have changed the setting since); the stored value and every handle opened later follow.
                    # size_limit is far above the content, so the histories themselves are not affected
                    value = gen.pick(rng, [2**26, 2**27, 2**28, 2**29, 2**30])
                    got = drv.real.reset('size_limit', value)
                    per_shard_limit['value'] = value
                    res.count('events_reset')
                    if got != value or drv.real.reset('size_limit') != value:
                        raise Mismatch('reset(size_limit, %r) returned %r and a reload gives %r' % (
                            value, got, drv.real.reset('size_limit')), drv.witness())
                    for o in drv.observers:
                        if o.settings().get('size_limit') != value:
                            raise Mismatch('after reset(size_limit, %r) through one of %d handles the Settings table holds %r' % (
                                value, len(handles), o.settings().get('size_limit')), drv.witness())
                    h = fresh()
                    handles.append(h)
                    check_settings(h, 'an object opened after a setting was changed at run time')
                elif ev == 'pickle':
                    h = pickle.loads(pickle.dumps(drv.real))
                    handles.append(h)
                    check_settings(h, 'an unpickled object')
                    res.count('events_pickle')
                elif ev == 'thread':
                    box = []

                    def work():
                        try:
                            drv.step(op, *args, **kw)
                        except BaseException as exc:      # noqa: BLE001
                            box.append(exc)
                    th = threading.Thread(target=work)
                    th.start()
                    th.join()
                    res.count('events_thread')
                    res.count('calls_judged')
                    res.count('evaluations')
                    if box:
                        raise box[0]
                    continue
                elif ev in ('process', 'fork'):
                    sub = []
                    while i < len(steps) and len(sub) < rng.randrange(2, 7):
                        if steps[i][0] != 'ADV':
                            sub.append(steps[i])
                        i += 1
                    sub = [(op, args, kw)] + sub
                    sub = [(o, a, ({} if type(k.get('now')) is tuple else k)) for o, a, k in sub]
                    # what a lazy cull removes inside a batch executed elsewhere cannot be observed call by call:
                    # no expired item may exist when the batch starts and none may expire inside it
                    sub = [(o, a, (dict(k, expire=None) if k.get('expire') is not None and k['expire'] < 50 else k))
                           for o, a, k in sub]
                    sub = [(o, (a[:1] if o == 'touch' and len(a) > 1 and a[1] is not None and a[1] < 50 else a), k)
                           for o, a, k in sub]
                    drv.real = handles[0]
                    clock.advance(60.0)
                    drv.step('expire')
                    drv._avoid_window(span=4000)
                    if ev == 'process':
                        spec = {'directory': d, 'kind': kind, 'shards': shards, 'ops': sub, 'ticks': clock.ticks, 'disk': 'Disk'}
                        inp, outp = d + '.in', d + '.out'
                        with open(inp, 'wb') as f:
                            pickle.dump(spec, f)
                        env = dict(os.environ, VF_REPO=common.REPO, PYTHONDONTWRITEBYTECODE='1')
                        p = subprocess.run([common.PY, '-c', CHILD % {'verif': common.VERIF}, inp, outp], env=env,
                                           capture_output=True, timeout=300)
                        if p.returncode:
                            raise Mismatch('a fresh interpreter process failed on the directory: %s' % p.stderr.decode()[-400:],
                                           drv.witness())
                        with open(outp, 'rb') as f:
                            out = pickle.load(f)
                        os.unlink(inp)
                        os.unlink(outp)
                        res.count('events_process')
                    else:
                        outp = d + '.fork'
                        pid = os.fork()
                        if pid == 0:
                            code = 0
                            try:
                                probe.PROBE.foreign_pid_uses = 0
                                recs = run_ops(drv.real, sub, clock, kind)
                                with open(outp, 'wb') as f:
                                    pickle.dump({'records': recs, 'ticks': clock.ticks,
                                                 'foreign': probe.PROBE.foreign_pid_uses}, f)
                            except BaseException:      # noqa: BLE001
                                import traceback
                                traceback.print_exc()
                                code = 3
                            os._exit(code)
                        _, status = os.waitpid(pid, 0)
                        if status != 0 or not os.path.exists(outp):
                            raise Mismatch('a forked child could not use the inherited object (status %r)' % status, drv.witness())
                        with open(outp, 'rb') as f:
                            out = pickle.load(f)
                        os.unlink(outp)
                        res.count('events_fork')
                        if out.get('foreign'):
                            raise Mismatch('the forked child used the SQLite connection opened by its parent for %d '
                                           'statement(s) (SQLite forbids carrying a connection across fork)' % out['foreign'],
                                           drv.witness())
                    clock.ticks = max(clock.ticks, out['ticks']) + 1
                    drv.replay_external(out['records'])
                    res.count('calls_judged', len(out['records']))
                    res.count('evaluations', len(out['records']))
                    continue
            drv.step(op, *args, **kw)
            res.count('calls_judged')
            res.count('evaluations')
        # all handles agree at the end
        for h in handles:
            drv.real = h
            drv.step('len')
            drv.step('iter')
            drv.readout()
        check_settings(fresh_and_track(fresh, handles), 'a handle opened at the end')
        res.count(kind + '_histories')
        if len(res.samples) < 2:
            res.sample({'label': label, 'kind': kind, 'settings': settings, 'handles': len(handles)})
    except Ambiguous:
        res.count('ambiguous_histories_dropped')
    except Mismatch as m:
        res.violation(m.what, dict(m.witness, label=label, settings=settings))
    finally:
        for h in handles:
            try:
                h.close()
            except Exception:      # noqa: BLE001
                pass
        drv.close()
        sc.drop(d)
        for ext in ('.in', '.out', '.fork'):
            if os.path.exists(d + ext):
                os.unlink(d + ext)


def fresh_and_track(fresh, handles):
    h = fresh()
    handles.append(h)
    return h


def jsondisk_history(dc, sc, res, rng, label):
    """JSONDisk(compress_level) must come back from the Settings table; the class is passed again."""
    d = sc.new()
    level = gen.pick(rng, [0, 6, 9])
    c = dc.Cache(d, disk=dc.JSONDisk, disk_compress_level=level, disk_min_file_size=T)
    ref = {}
    try:
        handles = [c]
        for i in range(60):
            h = gen.pick(rng, handles)
            k = gen.pick(rng, ['a', 'b', 'c', 1, 2.5])
            r = rng.random()
            if r < 0.5:
                v = gen.pick(rng, [i, 'x' * rng.randrange(0, 200), [1, {'k': None}], None, 1.5])
                h.set(k, v)
                ref[repr(k)] = v
            elif r < 0.8:
                got = h.get(k, 'MISS')
                exp = ref.get(repr(k), 'MISS')
                res.count('calls_judged')
                res.count('evaluations')
                if not same(got, exp):
                    res.violation('JSONDisk cache: get(%r) through handle %d returned %r, expected %r' % (k, handles.index(h), got, exp),
                                  {'label': label})
                    return
            elif r < 0.9:
                h2 = dc.Cache(d, disk=dc.JSONDisk)
                if h2.disk_compress_level != level or h2.disk.compress_level != level:
                    res.violation('disk_compress_level reads %r after reopening, created with %r' % (h2.disk_compress_level, level),
                                  {'label': label})
                    return
                res.count('settings_read_back')
                handles.append(h2)
            else:
                h2 = pickle.loads(pickle.dumps(h))
                if type(h2.disk) is not dc.JSONDisk or h2.disk.compress_level != level:
                    res.violation('unpickled JSONDisk cache has disk %r level %r' % (type(h2.disk).__name__, getattr(h2.disk, 'compress_level', None)),
                                  {'label': label})
                    return
                handles.append(h2)
        res.count('jsondisk_histories')
    finally:
        for h in handles:
            h.close()
        sc.drop(d)


def container_events(dc, sc, res, rng, kind, label):
    import collections
    d = sc.new()
    dc.Cache(d, disk_min_file_size=T, eviction_policy='none').close()
    big = 'B' * (T + 9)
    try:
        if kind == 'deque':
            maxlen = gen.pick(rng, [None, 5])
            objs = [dc.Deque(directory=d, maxlen=maxlen)]
            ref = collections.deque(maxlen=maxlen)
        elif kind == 'index':
            objs = [dc.Index(d)]
            ref = collections.OrderedDict()
        else:
            from diskcache import DjangoCache
            params = {'SHARDS': 2, 'KEY_PREFIX': 'px', 'VERSION': 3}
            objs = [DjangoCache(d, params)]
            ref = {}
        for i in range(80):
            o = gen.pick(rng, objs)
            r = rng.random()
            v = gen.pick(rng, [i, big + str(i), ('t', i), None])
            if kind == 'deque':
                if r < 0.35:
                    o.append(v)
                    ref.append(v)
                elif r < 0.5:
                    o.appendleft(v)
                    ref.appendleft(v)
                elif r < 0.65 and len(ref):
                    a, b = o.pop(), ref.pop()
                    if not same(a, b):
                        return res.violation('Deque.pop through handle %d returned %r, expected %r' % (objs.index(o), a, b), {'label': label})
                elif r < 0.8:
                    ev = gen.pick(rng, ['reopen', 'pickle', 'copy', 'close'])
                    res.count('deque_events')
                    res.seen('event_cells', ('deque', ev, 'x'))
                    if ev == 'reopen':
                        objs.append(dc.Deque(directory=d, maxlen=maxlen))
                    elif ev == 'pickle':
                        objs.append(pickle.loads(pickle.dumps(o)))
                    elif ev == 'copy':
                        objs.append(o.copy())
                    else:
                        o.cache.close()
                got = [list(x) for x in objs]
                for j, g in enumerate(got):
                    if not same(g, list(ref)):
                        return res.violation('Deque handle %d holds %r, reference %r' % (j, g[:8], list(ref)[:8]), {'label': label})
                    if (objs[j].maxlen if objs[j].maxlen != float('inf') else None) != maxlen:
                        return res.violation('Deque handle %d has maxlen %r, created with %r' % (j, objs[j].maxlen, maxlen), {'label': label})
            elif kind == 'index':
                k = gen.pick(rng, ['a', 'b', 1, (2, 'x'), b'k'])
                if r < 0.45:
                    o[k] = v
                    ref[k] = v
                elif r < 0.6 and k in ref:
                    del o[k]
                    del ref[k]
                elif r < 0.8:
                    ev = gen.pick(rng, ['reopen', 'pickle', 'close'])
                    res.count('index_events')
                    res.seen('event_cells', ('index', ev, 'x'))
                    if ev == 'reopen':
                        objs.append(dc.Index(d))
                    elif ev == 'pickle':
                        objs.append(pickle.loads(pickle.dumps(o)))
                    else:
                        o.cache.close()
                for j, x in enumerate(objs):
                    if not same(list(x.items()), list(ref.items())):
                        return res.violation('Index handle %d holds %r, reference %r' % (j, list(x.items())[:6], list(ref.items())[:6]),
                                             {'label': label})
            else:
                k = gen.pick(rng, ['a', 'b', 'c'])
                ver = gen.pick(rng, [None, 1, 3])
                if r < 0.5:
                    o.set(k, v, timeout=None, version=ver)
                    ref[(k, ver or 3)] = v
                elif r < 0.6:
                    o.delete(k, version=ver)
                    ref.pop((k, ver or 3), None)
                elif r < 0.8:
                    ev = gen.pick(rng, ['reopen', 'close'])
                    res.count('django_events')
                    res.seen('event_cells', ('django', ev, 'x'))
                    if ev == 'reopen':
                        from diskcache import DjangoCache
                        objs.append(DjangoCache(d, params))
                    else:
                        o.close()
                for j, x in enumerate(objs):
                    for (kk, vv), val in ref.items():
                        if not same(x.get(kk, 'MISS', version=vv), val):
                            return res.violation('DjangoCache handle %d: get(%r, version=%r) -> %r, expected %r' % (
                                j, kk, vv, x.get(kk, 'MISS', version=vv), val), {'label': label})
            res.count('calls_judged')
            res.count('evaluations')
    finally:
        for o in objs:
            try:
                (o.cache if hasattr(o, 'cache') and kind != 'django' else o).close()
            except Exception:      # noqa: BLE001
                pass
        sc.drop(d)


# -------------------------------------------------------------------- golden
def golden(dc, sc, res):
    with open(os.path.join(common.VERIF, 'golden', 'manifest.pkl'), 'rb') as fh:
        man = pickle.load(fh)
    root = sc.new('golden')
    shutil.copytree(os.path.join(common.VERIF, 'golden'), root)

    def fail(what, **kw):
        res.violation('golden (written by the pinned commit): ' + what, kw)

    def read_all(name, handle, content, mode_of=None):
        last = {}
        for k, v, tag in content:
            last[repr(observe.ident(k)) if name != 'cache_json' else repr(k)] = (k, v, tag)
        for k, v, tag in last.values():
            res.count('golden_items_read')
            res.count('evaluations')
            res.seen('golden_cells', (name, type(k).__name__, type(v).__name__, len(repr(v)) > T))
            got = handle.get(k, 'MISSING', tag=True) if tag is not None or name == 'cache' else (handle.get(k, 'MISSING'), None)
            if not same(got[0], v):
                fail('%s: key %r reads %r, the manifest says %r' % (name, k, got[0], v), key=k)
                return False
            if name == 'cache' and not same(got[1], tag):
                fail('%s: key %r has tag %r, the manifest says %r' % (name, k, got[1], tag), key=k)
                return False
        if len(handle) != len(last):
            fail('%s: holds %d items, the manifest has %d' % (name, len(handle), len(last)))
            return False
        return True

    # plain cache: opened with NO settings: they must come from the Settings table
    c = dc.Cache(os.path.join(root, 'cache'))
    try:
        for k, v in man['cache']['settings'].items():
            if getattr(c, k) != v:
                fail('setting %s reads %r, stored %r' % (k, getattr(c, k), v))
        if not read_all('cache', c, man['cache']['content']):
            return
        keys = list(c)
        if len(keys) != len(set(map(repr, keys))):
            fail('iteration of the golden cache yields duplicates')
        if c.pull(prefix='q') != ('q-500000000000000', 'q-inline') or c.get(man['cache_int_queue_key']) != b'intq':
            fail('golden queues do not deliver their items in order')
        if c.check():
            fail('check() on the golden cache reports %r' % [str(w.message) for w in c.check()][:3])
        res.count('golden_schema_compared')
        schema = c._sql('SELECT type, name, tbl_name, sql FROM sqlite_master ORDER BY name').fetchall() \
            if hasattr(c, '_sql') else observe.Observer(os.path.join(root, 'cache')).schema()
        if [tuple(r) for r in schema] != [tuple(r) for r in man['schema']]:
            fail('opening the golden cache changed its schema', got=schema)
    finally:
        c.close()
    c = dc.Cache(os.path.join(root, 'cache_p2'))
    try:
        if c.disk_pickle_protocol != 2 or not read_all('cache_p2', c, man['cache_p2']['content']):
            fail('protocol-2 cache unreadable or protocol setting lost (%r)' % c.disk_pickle_protocol)
            return
    finally:
        c.close()
    c = dc.Cache(os.path.join(root, 'cache_json'), disk=dc.JSONDisk)
    try:
        if not read_all('cache_json', c, man['cache_json']['content']):
            return
    finally:
        c.close()
    f = dc.FanoutCache(os.path.join(root, 'fanout'), shards=man['fanout']['shards'])
    try:
        content = [(k, v, t) for k, v, t in man['fanout']['content']]
        # keys that the pinned tree itself split over two shards (K2) are judged by C13
        single = {repr(k) for k, holders in man['fanout']['where'] if len(holders) == 1}
        last = {}
        for k, v, t in content:
            last[repr(observe.ident(k))] = (k, v)
        for k, v in last.values():
            if repr(k) not in single:
                continue
            res.count('golden_items_read')
            res.count('evaluations')
            res.seen('golden_cells', ('fanout', type(k).__name__, type(v).__name__))
            if not same(f.get(k, 'MISSING'), v):
                alias = [x for x, _, _ in content if observe.ident(x) == observe.ident(k) and repr(x) != repr(k)]
                if alias:
                    continue      # written under two equal keys in different shards by the pinned tree: K2, see C13
                fail('fanout: key %r reads %r, the manifest says %r' % (k, f.get(k, 'MISSING'), v), key=k)
                return
        if list(f.deque('sub/dq')) != man['fanout_deque'] or list(f.index('sub/ix').items()) != man['fanout_index']:
            fail('fanout sub-deque / sub-index differ from the manifest')
    finally:
        f.close()
    dq = dc.Deque(directory=os.path.join(root, 'deque'), maxlen=man['deque']['maxlen'])
    try:
        if not same(list(dq), man['deque']['content']):
            fail('deque reads %r, manifest %r' % (list(dq)[:5], man['deque']['content'][:5]))
        res.count('golden_items_read', len(man['deque']['content']))
    finally:
        dq.cache.close()
    ix = dc.Index(os.path.join(root, 'index'))
    try:
        if not same(list(ix.items()), man['index']['content']):
            fail('index reads %r, manifest %r' % (list(ix.items())[:5], man['index']['content'][:5]))
        res.count('golden_items_read', len(man['index']['content']))
    finally:
        ix.cache.close()
    # write direction: key encoding, stored rows, schema of a directory created by the current tree
    for proto, table in man['put'].items():
        disk = dc.Disk('/nonexistent', min_file_size=man['T'], pickle_protocol=proto)
        for k, db_key, raw, h in table:
            got_key, got_raw = disk.put(k)
            got_key = bytes(got_key) if isinstance(got_key, (bytes, memoryview)) else got_key
            res.count('golden_rows_compared')
            if got_raw != raw or not same(got_key, db_key):
                fail('Disk.put(%r) at protocol %d = (%r, %r), the released format stores (%r, %r)' % (
                    k, proto, got_key, got_raw, db_key, raw), key=k)
                return
    jd = dc.JSONDisk('/nonexistent', compress_level=1)
    for k, db_key, raw, h in man['json_put']:
        gk, gr = jd.put(k)
        if bytes(gk) != db_key or gr != raw:
            fail('JSONDisk.put(%r) changed' % (k,), key=k)
            return
    d2 = sc.new('rewrite')
    c = dc.Cache(d2, **{k: v for k, v in man['cache']['settings'].items()})
    try:
        for k, v, tag in man['cache']['content'][:120]:
            c.set(k, v, tag=tag)
        c.push('q-inline', prefix='q')
        c.push('Q' * (man['T'] + 5), prefix='q')
        if c.push(b'intq') != man['cache_int_queue_key']:
            fail('push numbering differs from the released format')
        o = observe.Observer(d2)
        # key columns only: how VALUES are laid out may legitimately change as long as old directories stay readable
        rows = o._connect().execute('SELECT key, raw, tag FROM Cache ORDER BY rowid').fetchall()
        schema = o.schema()
        o.close()
        norm = [tuple(bytes(x) if isinstance(x, (bytes, memoryview)) else x for x in r) for r in rows]
        if len(norm) != len(man['cache_rows']):
            fail('re-creating the golden content gives %d rows, the pinned tree stored %d' % (len(norm), len(man['cache_rows'])))
            return
        for got, exp in zip(norm, man['cache_rows']):
            res.count('golden_rows_compared')
            exp = exp[:3]
            if not same(tuple(got), tuple(exp)):
                fail('stored row columns changed: now %r, released format %r' % (got, exp))
                return
        if [tuple(r) for r in schema] != [tuple(r) for r in man['schema']]:
            fail('schema of a new cache differs from the released schema', got=[r[1] for r in schema])
        # file layout: two directory levels, 28 hex characters + .val
        import re
        for fn in observe.list_files(d2)[0]:
            if not re.fullmatch(r'[0-9a-f]{2}/[0-9a-f]{2}/[0-9a-f]{28}\.val', fn):
                fail('value file layout changed: %s' % fn)
                return
    finally:
        c.close()
    sc.drop(root)
    sc.drop(d2)


def run_shard(tier, seed, shard, nshards, res):
    dc = common.use_repo()
    probe.install()
    with common.Scratch() as sc:
        locked_open_sweep(dc, sc, res, shard, nshards, tier)
        for i in range(4 if tier == 'quick' else 40):
            rng = common.rng_for(seed, 'c18', shard, i)
            kind = 'fanout' if i % 3 == 2 else 'cache'
            cache_history(dc, sc, res, rng, kind, 'c18 seed=%d shard=%d i=%d %s' % (seed, shard, i, kind))
            if res.new_violations() > 8:
                return
        probe.reset()
        rng = common.rng_for(seed, 'c18x', shard)
        try:
            jsondisk_history(dc, sc, res, rng, 'c18 jsondisk shard=%d' % shard)
        except Exception as exc:      # noqa: BLE001 - never raised on the unchanged tree
            res.violation('JSONDisk cache handles disagree / fail: %s: %s' % (type(exc).__name__, exc), {'shard': shard})
        for kind in ('deque', 'index', 'django'):
            container_events(dc, sc, res, rng, kind, 'c18 %s shard=%d' % (kind, shard))
        if shard % 4 == 0:
            try:
                golden(dc, sc, res)
            except Exception as exc:      # noqa: BLE001 - never raised on the unchanged tree
                import traceback
                res.violation('golden directories written by the pinned commit cannot be processed: %s: %s' % (
                    type(exc).__name__, exc), {'traceback': traceback.format_exc()[-800:]})
