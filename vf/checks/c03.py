"""C03 - a single client sees an exact dictionary with expiry, tags, statistics."""

import itertools
import pickle
import pickletools

from .. import common, gen, probe
from ..driver import CacheDriver, Mismatch
from ..model import Ambiguous

PROP = 'C03'
LEVEL = 'exploration'
RULE = ('histories of public Cache calls run in lock-step against the RefCache reference model under a virtual '
        'clock; after every call the result, the table contents seen by an independent SQLite connection, the '
        'hit/miss counters and the structural invariant are compared. evaluations = calls judged; '
        'distinct_nontrivial = distinct (operation, outcome class, storage side, configuration) cells plus distinct '
        'systematic length<=3 histories')
DISTINCT = ('cells', 'systematic_histories')
REQUIRED = ('calls_spelled_positionally', 'calls_judged', 'random_histories', 'systematic_histories_run', 'iter_over_100_rows', 'lazy_culls_seen')
ASSUMPTIONS = ('values/metadata observed through an independent read-only SQLite connection are what other clients see',
               'virtual clock replaces time.time inside diskcache.core',
               'positive ttls sit on odd half-ticks so now == expire_time never occurs')

POLICIES = ['least-recently-stored', 'least-recently-used', 'least-frequently-used', 'none']


def plan(tier):
    if tier == 'quick':
        return {'nshards': 16, 'timeout': 600}
    return {'nshards': 64, 'timeout': 3600}


def configs():
    out = []
    for pol in POLICIES:
        for stats in (False, True):
            for tagidx in (False, True):
                for T in (0, 64):
                    for cl in (0, 1, 10):
                        out.append({'eviction_policy': pol, 'statistics': stats, 'tag_index': tagidx,
                                    'disk_min_file_size': T, 'cull_limit': cl})
    return out


# --------------------------------------------------------------- systematic
def templates(T):
    big = 'B' * (T + 40)
    return [
        ('set', ('k', 'v1'), {}),
        ('set', ('k', big), {'expire': gen.ttl_exact(5.5), 'tag': 't'}),
        ('add', ('k', b'v3' * (T // 2 + 8)), {'expire': gen.ttl_exact(0.5)}),
        ('get', ('k', 'D'), {'expire_time': True, 'tag': True}),
        ('pop', ('k', 'D'), {'tag': True}),
        ('delitem', ('k',), {}),
        ('touch', ('k', gen.ttl_exact(20.0)), {}),
        ('incr', ('k', 3), {}),
        ('ADV', (6.0,), {}),
        ('expire', (), {}),
        ('set', ('j', 7), {'expire': -1.5, 'tag': 't'}),
        ('evict', ('t',), {}),
        # calls that remove the expired rows they come across on their way (also when they end up finding nothing)
        ('peekitem', (), {'last': True}),
        ('peekitem', (), {'last': False, 'expire_time': True}),
        ('push', (big,), {'expire': gen.ttl_exact(0.5)}),
        ('pull', (), {'side': 'back'}),
    ]


def epilogue(drv):
    drv.step('len')
    drv.step('iter')
    drv.step('reversed')
    drv.step('iterkeys')
    drv.step('iterkeys', reverse=True)
    drv.readout()
    drv.step('contains', 'k')
    drv.step('stats')


def run_history(dc, sc, res, cfg, steps, label):
    """steps: iterable of (op, args, kw); 'ADV' advances the clock."""
    d = sc.new()
    clock = probe.set_clock(probe.VClock())
    drv = CacheDriver(dc, d, cfg, clock=clock)
    try:
        for op, args, kw in steps:
            if op == 'ADV':
                clock.advance(args[0])
                continue
            if op == 'FREEZE':
                clock.frozen = args[0]
                if not args[0]:
                    clock.advance(gen.TICK)
                continue
            got = drv.step(op, *args, **kw)
            res.count('evaluations')
            res.count('calls_judged')
            cell = (op, got[0] if got[0] == 'raise' else type(got[1]).__name__, cfg['eviction_policy'],
                    cfg['statistics'], cfg['disk_min_file_size'], cfg['cull_limit'])
            res.seen('cells', cell)
        epilogue(drv)
        res.count('culled_expired_items', drv.culled_expired)
        if drv.culled_expired:
            res.count('lazy_culls_seen')
        return True
    except Ambiguous:
        res.count('ambiguous_histories_dropped')
        return True
    except Mismatch as m:
        res.violation(m.what, dict(m.witness, label=label), signature=classify(m))
        return False
    finally:
        res.count('calls_spelled_positionally', drv.positional_spellings)
        drv.close()
        sc.drop(d)


def classify(m):
    return None


# ------------------------------------------------------------------- random
def random_history(rng, cfg, n_ops, wide, aliases=True):
    T = cfg['disk_min_file_size']
    vals = gen.value_pool(rng, T)
    if wide:
        nk = rng.randrange(150, 300)
        keys = [(-i - 1) if i % 2 else 'k%03d' % i for i in range(nk)]
    else:
        pool = gen.simple_keys()
        rng.shuffle(pool)
        keys = pool[:rng.randrange(3, 7)]
        a = gen.pick(rng, gen.alias_keys())
        if aliases:
            keys.extend(a)
    # bytes keys equal to the stored (pickled) form of another key: same key column, different raw flag; being
    # blobs that start with the pickle header they sort last, where reverse iteration starts
    proto = cfg.get('disk_pickle_protocol', pickle.HIGHEST_PROTOCOL)
    pickled = [k for k in keys if type(k) in (tuple, bool, type(None))]
    if wide:
        pickled = [('zz', None), ('zz', 1)]
        keys.extend(pickled)
    for k in pickled:
        if rng.random() < 0.5:
            keys.append(pickletools.optimize(pickle.dumps(k, protocol=proto)))
    numeric_vals = [0, 1, -5, 2**62, 2**63 - 2, 1.5, 10]

    def key():
        return gen.pick(rng, keys)

    def ttl():
        return gen.pick(rng, gen.TTLS)

    def tag():
        return gen.pick(rng, gen.TAGS)

    weights = [
        ('set', 18), ('setitem', 4), ('add', 8), ('get', 14), ('getitem', 5), ('read', 3), ('contains', 5),
        ('touch', 5), ('incr', 7), ('decr', 3), ('pop', 6), ('delete', 5), ('delitem', 3), ('len', 2),
        ('iter', 1), ('reversed', 1), ('iterkeys', 1), ('peekitem', 2), ('expire', 1.5), ('evict', 1.5),
        ('clear', 0.15), ('stats', 1), ('push', 4), ('pull', 3), ('peek', 2), ('ADV', 10), ('cull', 0.7),
        ('expire_now', 0.8), ('tagindex', 0.4), ('reset_cull', 0.3),
    ]
    names = [w[0] for w in weights]
    ws = [w[1] for w in weights]
    if wide:
        # fill first so that bulk operations cross the 100-row page; every other wide history stores the
        # batch on ONE clock instant with one ttl (coarse clocks do that), then lets it expire in bulk
        shared = rng.random() < 0.5
        if shared:
            yield ('FREEZE', (True,), {})
            batch_ttl = gen.pick(rng, [gen.ttl_exact(0.5), gen.ttl_exact(5.5)])
        # most items of the batch carry one tag, so that evict(tag) has more than one 100-row page to remove
        batch_tag = gen.pick(rng, ['t', 7, 2.5, b't'])
        for k in keys:
            if rng.random() < 0.9:
                yield ('set', (k, gen.pick(rng, vals)), {'expire': batch_ttl if shared else ttl(),
                                                         'tag': batch_tag if rng.random() < 0.7 else tag()})
        if not shared and rng.random() < 0.6:
            yield ('evict', (batch_tag,), {})
            yield ('len', (), {})
        if shared:
            yield ('FREEZE', (False,), {})
            yield ('ADV', (gen.pick(rng, [0.1, 1.0, 7.0]),), {})
            if rng.random() < 0.6:
                yield ('ADV', (7.0,), {})
                yield (gen.pick(rng, ['expire', 'cull']), (), {}) if rng.random() < 0.7 else ('evict', (batch_tag,), {})
                yield ('len', (), {})
    for _ in range(n_ops):
        op = rng.choices(names, ws)[0]
        if op == 'ADV':
            yield ('ADV', (gen.pick(rng, gen.ADVANCES) + gen.TICK,), {})
        elif op in ('set', 'add'):
            kw = {}
            if rng.random() < 0.5:
                kw['expire'] = ttl()
            if rng.random() < 0.4:
                kw['tag'] = tag()
            v = gen.pick(rng, vals)
            if rng.random() < 0.08:
                v = bytes(rng.randrange(256) for _ in range(rng.choice([0, 1, T, T + 5, 200])))
                kw['read'] = True
            elif rng.random() < 0.15:
                v = gen.pick(rng, numeric_vals)
            yield (op, (key(), v), kw)
        elif op == 'setitem':
            yield (op, (key(), gen.pick(rng, vals + numeric_vals)), {})
        elif op == 'get':
            kw = {}
            if rng.random() < 0.3:
                kw['expire_time'] = True
            if rng.random() < 0.3:
                kw['tag'] = True
            if rng.random() < 0.2:
                kw['read'] = True
            args = (key(),) if rng.random() < 0.5 else (key(), 'DEF')
            yield (op, args, kw)
        elif op in ('getitem', 'read', 'contains', 'delete', 'delitem'):
            yield (op, (key(),), {})
        elif op == 'touch':
            yield (op, (key(),) if rng.random() < 0.3 else (key(), ttl()), {})
        elif op in ('incr', 'decr'):
            r = rng.random()
            if r < 0.4:
                yield (op, (key(),), {})
            elif r < 0.8:
                yield (op, (key(), gen.pick(rng, [1, 2, -3, 0.5, 2**62])), {})
            else:
                yield (op, (key(), 1), {'default': gen.pick(rng, [None, 5, 0, 2.5])})
        elif op == 'pop':
            kw = {}
            if rng.random() < 0.3:
                kw['expire_time'] = True
            if rng.random() < 0.3:
                kw['tag'] = True
            yield (op, (key(),) if rng.random() < 0.5 else (key(), 'DEF'), kw)
        elif op in ('len', 'iter', 'reversed', 'clear', 'cull'):
            yield (op, (), {})
        elif op == 'iterkeys':
            yield (op, (), {'reverse': rng.random() < 0.5})
        elif op == 'peekitem':
            kw = {'last': rng.random() < 0.5}
            if rng.random() < 0.3:
                kw['expire_time'] = True
            if rng.random() < 0.3:
                kw['tag'] = True
            yield (op, (), kw)
        elif op == 'expire':
            yield (op, (), {})
        elif op == 'expire_now':
            # explicit `now`: in the past (nothing to do), slightly ahead, far ahead; 0 means "use the clock"
            yield ('expire', (), {'now': ('NOW+', gen.pick(rng, [-100.0, 0.25, 3.0, 1e4]))} if rng.random() < 0.85 else {'now': 0})
        elif op == 'tagindex':
            yield (gen.pick(rng, ['create_tag_index', 'drop_tag_index']), (), {})
        elif op == 'reset_cull':
            if rng.random() < 0.6:
                yield ('reset', ('cull_limit', gen.pick(rng, [0, 1, 10])), {})
            else:
                # the storage threshold moves: earlier values stay where they are, later ones follow the new one
                yield ('reset', ('disk_min_file_size', gen.pick(rng, [0, 1, T, T + 7, 4 * T + 100, 2**15])), {})
        elif op == 'evict':
            yield (op, (tag(),), {})
        elif op == 'stats':
            yield (op, (), {'enable': rng.random() < 0.6, 'reset': rng.random() < 0.3})
        elif op == 'push':
            kw = {'prefix': gen.pick(rng, [None, 'q']), 'side': gen.pick(rng, ['back', 'front'])}
            if rng.random() < 0.4:
                kw['expire'] = ttl()
            if rng.random() < 0.3:
                kw['tag'] = tag()
            yield (op, (gen.pick(rng, vals),), kw)
        elif op in ('pull', 'peek'):
            kw = {'prefix': gen.pick(rng, [None, 'q']), 'side': gen.pick(rng, ['back', 'front'])}
            if rng.random() < 0.3:
                kw['expire_time'] = True
            if rng.random() < 0.3:
                kw['tag'] = True
            yield (op, (), kw)


def counting(steps, res):
    """Pass steps through and note when iteration ran over > 100 rows."""
    for s in steps:
        yield s


def run_shard(tier, seed, shard, nshards, res):
    dc = common.use_repo()
    probe.install()
    cfgs = configs()
    with common.Scratch() as sc:
        # (i) systematic: every history of length <= 3 over the template alphabet
        T = 64
        tpl = templates(T)
        base_cfgs = [
            {'eviction_policy': 'least-recently-stored', 'statistics': True, 'tag_index': False,
             'disk_min_file_size': T, 'cull_limit': 10},
            {'eviction_policy': 'least-recently-used', 'statistics': False, 'tag_index': True,
             'disk_min_file_size': T, 'cull_limit': 1},
        ]
        hist = []
        for n in (1, 2, 3):
            hist.extend(itertools.product(range(len(tpl)), repeat=n))
        stride = 1 if tier == 'thorough' else 1
        for i, h in enumerate(hist):
            if i % nshards != shard:
                continue
            cfg = base_cfgs[(i // nshards + seed) % len(base_cfgs)] if tier == 'quick' else None
            for c in ([cfg] if cfg else base_cfgs):
                ok = run_history(dc, sc, res, c, [tpl[j] for j in h], 'systematic %r' % (h,))
                res.count('systematic_histories_run')
                res.seen('systematic_histories', (h, c['eviction_policy']))
                if not ok and res.new_violations() > 20:
                    return
        # (ii) random
        n_hist = 12 if tier == 'quick' else 150
        for i in range(n_hist):
            rng = common.rng_for(seed, 'c03', shard, i)
            cfg = cfgs[(shard * n_hist + i + seed * 7) % len(cfgs)] if rng.random() < 0.7 else gen.pick(rng, cfgs)
            wide = (i % 3 == 0)
            n_ops = rng.randrange(300, 900) if tier == 'quick' else rng.randrange(300, 1500)
            steps = list(random_history(rng, cfg, n_ops, wide))
            before = res.counters.get('calls_judged', 0)
            ok = run_history(dc, sc, res, cfg, steps, 'random seed=%d shard=%d i=%d wide=%s' % (seed, shard, i, wide))
            res.count('random_histories')
            if wide and ok:
                res.count('iter_over_100_rows')
            if len(res.samples) < 2:
                res.sample({'config': cfg, 'first_calls': steps[:12], 'calls': len(steps)})
            if res.new_violations() > 20:
                return
