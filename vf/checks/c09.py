"""C09 - eviction starts only at the size limit and follows the policy order."""

import os

from .. import common, gen, observe, probe
from ..driver import CacheDriver, Mismatch
from ..model import Ambiguous

PROP = 'C09'
LEVEL = 'exploration'
RULE = ('histories of sets/gets/incrs/touches/pops with skewed read patterns over file-backed (1-30 KiB) and inline '
        'values against small size limits (48-400 KiB), expired items mixed in, for each policy x cull_limit in '
        '{0,1,2,10}, on Cache and FanoutCache(3); the lock-step driver reports every item that disappears; the eviction '
        'monitor then requires: at most cull_limit removals per write (none when 0), policy removals only when the '
        'policy is not none AND a volume the code computed (public volume() wrapped on the instance) AND the harness\'s '
        'own upper bound of the volume reached the limit, evicted items no newer/hotter than any survivor by API-level '
        'policy keys kept by the reference (store order, last store-or-read, read count), cull() returning exactly the '
        'number removed and leaving no expired item and volume <= limit or an empty cache, per shard for FanoutCache '
        'with limit/shards. evaluations = calls judged; distinct_nontrivial = distinct (policy, cull_limit, container, '
        'evicting operation, evicted count) cells'
        ' The limit must also still have been reached after the expired phase of the same call (size counter after the call plus evicted bytes, page slack); big items expiring at the limit are planted for that.')
DISTINCT = ('evict_cells',)
REQUIRED = ('non_ascii_text_values', 'calls_judged', 'evicting_writes_lrs', 'evicting_writes_lru', 'evicting_writes_lfu', 'writes_below_limit',
            'policy_none_histories', 'cull_limit_zero_histories', 'explicit_culls_evicting', 'fanout_histories',
            'expired_and_policy_mixed', 'container_doors_checked', 'big_items_expiring_at_the_limit',
            'evictions_bounded_after_expired_phase')
ASSUMPTIONS = ('LRU key = last set/add/incr/get-hit; LRS key = last set/add/incr; LFU key = reads since last store '
               '(an order is accepted if it is right with or without counting incr as a read)',
               'volume upper bound uses the page count before/after the call plus 6 pages of slack')

T = 256
POL = {'least-recently-stored': 'lrs', 'least-recently-used': 'lru', 'least-frequently-used': 'lfu', 'none': 'none'}


def plan(tier):
    return {'nshards': 16 if tier == 'quick' else 64, 'timeout': 900 if tier == 'quick' else 3600}


class Monitor:
    def __init__(self, res, cfg, kind, shards):
        self.res = res
        self.cfg = cfg
        self.kind = kind
        self.shards = shards
        self.policy = cfg['eviction_policy']
        self.limit = cfg['size_limit'] / (shards if kind == 'fanout' else 1)
        self.volumes = []         # values volume() returned to the code during the current call
        self.pre = None           # (pages*page_size + size) per shard before the call
        self.incrs = {}           # ident -> incr count since last store (LFU tolerance)

    def wrap(self, drv):
        targets = drv.real._shards if self.kind == 'fanout' else [drv.real]
        for i, c in enumerate(targets):
            orig = c.volume

            def wrapped(orig=orig, i=i):
                v = orig()
                self.volumes.append((i, v))
                return v
            c.volume = wrapped       # public method, instance attribute: no repository edit

    def measure(self, drv):
        out = []
        for o in drv.observers:
            con = o._connect()
            (pc,), = con.execute('PRAGMA page_count').fetchall()
            (ps,), = con.execute('PRAGMA page_size').fetchall()
            (sz,), = con.execute("SELECT value FROM Settings WHERE key = 'size'").fetchall()
            out.append((pc, ps, sz))
        return out

    def before(self, drv):
        self.volumes = []
        self.pre = self.measure(drv)

    def __call__(self, drv, op, evicted, rows):
        """Called by the driver when unexpired items disappeared during `op`."""
        mdl = drv.model
        if self.policy == 'none':
            raise Mismatch('policy none but %s evicted %r' % (op, [it.key for it in evicted][:5]), drv.witness())
        post = self.measure(drv)
        by_shard = {}
        unattributed = 0          # bytes of items written and evicted by this very call (shard unknown): they did count
        for it in evicted:
            if self.kind == 'fanout' and it.id not in drv.shard_of:
                # written and evicted by the same call: its shard was never observed, so it cannot be
                # compared with the survivors of one shard (a lone big item legitimately evicts itself)
                self.res.count('unattributed_self_evictions')
                unattributed += drv_row_size(drv, it)
                continue
            by_shard.setdefault(drv.shard_of.get(it.id, 0), []).append(it)
        for sh, items in by_shard.items():
            # (2) the limit must have been reached
            code_vols = [v for i, v in self.volumes if i == sh]
            if code_vols and not any(v >= self.limit for v in code_vols) and not mdl.explicit_cull:
                raise Mismatch('%s evicted %d item(s) although every volume the code computed (%r) was below the limit %d'
                               % (op, len(items), code_vols[:4], self.limit), drv.witness())
            if mdl.explicit_cull and code_vols and not any(v > self.limit for v in code_vols):
                raise Mismatch('cull() evicted although no computed volume exceeded the limit', drv.witness())
            pc0, ps, sz0 = self.pre[sh]
            pc1, _, sz1 = post[sh]
            new_bytes = max(0, sz1 - sz0) + sum(drv_row_size(drv, it) for it in items)
            upper = (max(pc0, pc1) + 6) * ps + sz0 + new_bytes + unattributed + 35000
            if upper < self.limit:
                raise Mismatch('%s evicted %d item(s) while the volume cannot have exceeded %d (limit %d)' % (
                    op, len(items), upper, self.limit), drv.witness())
            # (2b) ... and it must STILL have been reached once the expired items of this very call were gone: the
            # size counter after the call plus what the evicted unexpired items occupied is the size part of the
            # volume at the moment the (last) policy batch was decided (seeded/C09-11: a 'full' flag computed before
            # the expired phase)
            upper2 = (max(pc0, pc1) + 6) * ps + sz1 + sum(drv_row_size(drv, it) for it in items) + unattributed + 35000
            self.res.count('evictions_bounded_after_expired_phase')
            if sz1 < sz0:
                self.res.count('evictions_in_calls_that_shrank_the_size_counter')
            if upper2 < self.limit:
                raise Mismatch('%s evicted %d unexpired item(s) although, once the expired items it removed were gone, the '
                               'volume cannot have reached the limit any more (at most %d, limit %d)' % (
                                   op, len(items), upper2, self.limit), drv.witness())
            # (3) order: nothing evicted is newer/hotter than a survivor of the same shard
            survivors = [it for it in mdl.items if drv.shard_of.get(it.id, 0) == sh and it not in evicted
                         and it.id in {observe.row_ident(r['key'], r['raw']) for r in rows}]
            if survivors:
                ok = self.order_ok(items, survivors, with_incr=False) or (
                    self.policy == 'least-frequently-used' and self.order_ok(items, survivors, with_incr=True))
                if not ok:
                    raise Mismatch('%s evicted %r (policy keys %r) while %r (policy keys %r) survived: not %s order' % (
                        op, [it.key for it in items][:4], [self.key(it, False) for it in items][:4],
                        [it.key for it in survivors][:4], sorted(self.key(it, False) for it in survivors)[:4], self.policy),
                        drv.witness())
        self.res.count('evicting_writes_' + POL[self.policy])
        if mdl.explicit_cull:
            self.res.count('explicit_culls_evicting')
        self.res.seen('evict_cells', (self.policy, self.cfg['cull_limit'], self.kind, op, len(evicted)))

    def key(self, it, with_incr):
        if self.policy == 'least-recently-stored':
            return it.stored_seq
        if self.policy == 'least-recently-used':
            return it.used_seq
        return it.reads + (it.incrs if with_incr else 0)

    def order_ok(self, evicted, survivors, with_incr):
        return max(self.key(it, with_incr) for it in evicted) <= min(self.key(it, with_incr) for it in survivors)


def drv_row_size(drv, it):
    if isinstance(it.value, str):
        return len(it.value.encode('utf-8'))
    return len(it.value) if isinstance(it.value, bytes) else 64


def history(dc, sc, res, rng, kind, cfg, label):
    d = sc.new()
    clock = probe.set_clock(probe.VClock())
    mon = Monitor(res, cfg, kind, 3)
    drv = CacheDriver(dc, d, cfg, kind=kind, shards=3, clock=clock, evict_monitor=mon)
    mon.wrap(drv)
    nkeys = rng.randrange(25, 70)
    keys = ['k%02d' % i for i in range(nkeys)]
    hot = keys[:max(2, nkeys // 6)]

    def val():
        r = rng.random()
        if r < 0.45:
            return 'F' * rng.randrange(1000, 30000)
        if r < 0.65:
            # text that takes two to four bytes per character where it is stored: what counts against the limit is bytes
            res.count('non_ascii_text_values')
            return rng.choice(['\xe9', '\u20ac', '\U0001F600']) * rng.randrange(500, 12000)
        if r < 0.8:
            return b'B' * rng.randrange(300, 9000)
        return rng.randrange(100)

    def call(op, *a, **k):
        mon.before(drv)
        before_ev = drv.evicted
        before_exp = drv.culled_expired
        got = drv.step(op, *a, **k)
        res.count('evaluations')
        res.count('calls_judged')
        if op in ('set', 'add', 'incr') and drv.evicted == before_ev:
            res.count('writes_below_limit')
        if drv.evicted > before_ev and drv.culled_expired > before_exp:
            res.count('expired_and_policy_mixed')
        return got

    try:
        for step in range(rng.randrange(150, 400)):
            r = rng.random()
            if r < 0.45:
                k = gen.pick(rng, keys)
                kw = {}
                if rng.random() < 0.15:
                    kw['expire'] = gen.pick(rng, [gen.ttl_exact(0.5), gen.ttl_exact(3.5), -1.5])
                if rng.random() < 0.07:
                    # an item far bigger than the rest that expires soon: when it is culled as expired the volume falls
                    # well below the limit in the middle of a write that found the cache full (seeded/C09-11)
                    call('set', k, 'G' * rng.randrange(90000, 260000), expire=gen.ttl_exact(0.5))
                    clock.advance(1.0)
                    res.count('big_items_expiring_at_the_limit')
                    continue
                call('set', k, val(), **kw)
            elif r < 0.5:
                call('add', gen.pick(rng, keys), val())
            elif r < 0.75:
                k = gen.pick(rng, hot) if rng.random() < 0.7 else gen.pick(rng, keys)
                call(gen.pick(rng, ['get', 'get', 'getitem', 'read']), k) if rng.random() < 0.5 else call('get', k, 'D')
            elif r < 0.83:
                call('incr', 'n%d' % rng.randrange(6), 1)       # "incr then no read"
            elif r < 0.87:
                call('touch', gen.pick(rng, keys), gen.pick(rng, [None, gen.ttl_exact(5.5)]))
            elif r < 0.9:
                call('pop', gen.pick(rng, keys), 'D')
            elif r < 0.925:
                clock.advance(gen.pick(rng, [0.3, 1.0, 5.0]))
            elif r < 0.94:
                # the limit moves at run time; FanoutCache.reset gives every shard the value as it stands
                new_limit = gen.pick(rng, [0, 32, 64, 150, 300, 1024]) * 1024
                call('reset', 'size_limit', new_limit)
                mon.limit = new_limit
                cfg = dict(cfg, size_limit=new_limit * (3 if kind == 'fanout' else 1))
                res.count('size_limit_changes_at_run_time')
            elif r < 0.97:
                # explicit cull: afterwards no expired item, and volume <= limit or empty
                call('cull')
                now = clock.now_peek()
                left = [it.key for it in drv.model.items if it.expire is not None and it.expire < now - 1]
                if left:
                    raise Mismatch('cull() left expired items %r' % left[:4], drv.witness())
                if cfg['eviction_policy'] != 'none':
                    shards = drv.real._shards if kind == 'fanout' else [drv.real]
                    for i, c in enumerate(shards):
                        if c.volume() > mon.limit and len(c) > 0:
                            raise Mismatch('after cull() shard %d has volume %d > limit %d and %d items' % (
                                i, c.volume(), mon.limit, len(c)), drv.witness())
            else:
                call('len')
        # (6) per-shard limit
        if kind == 'fanout':
            for i, o in enumerate(drv.observers):
                sl = o.settings().get('size_limit')
                if sl != cfg['size_limit'] / 3:
                    raise Mismatch('shard %d stores size_limit %r, expected total/3 = %r' % (i, sl, cfg['size_limit'] / 3),
                                   drv.witness())
            res.count('fanout_histories')
        if cfg['eviction_policy'] == 'none':
            res.count('policy_none_histories')
        if cfg['cull_limit'] == 0:
            res.count('cull_limit_zero_histories')
        if len(res.samples) < 2 and drv.evicted:
            res.sample({'label': label, 'config': cfg, 'kind': kind, 'items_evicted': drv.evicted,
                        'expired_culled': drv.culled_expired})
    except Ambiguous:
        res.count('ambiguous_histories_dropped')
    except Mismatch as m:
        res.violation(m.what, dict(m.witness, label=label))
    finally:
        drv.close()
        sc.drop(d)


# ------------------------------------------- Deque and Index never evict, whichever door they come through
def container_doors(dc, d):
    from diskcache import DjangoCache
    fan = dc.FanoutCache(os.path.join(d, 'fan'), shards=2)
    dj = DjangoCache(os.path.join(d, 'dj'), {'SHARDS': 2})
    base = dc.Cache(os.path.join(d, 'base'), eviction_policy='none')
    doors = {
        'Deque(directory)': lambda: dc.Deque(directory=os.path.join(d, 'dq')),
        'Deque(iterable, directory)': lambda: dc.Deque(['seed'], directory=os.path.join(d, 'dq2')),
        'Deque.fromcache': lambda: dc.Deque.fromcache(base),
        'FanoutCache.deque': lambda: fan.deque('a/deque'),
        'FanoutCache.deque(maxlen)': lambda: fan.deque('b', maxlen=10**6),
        'DjangoCache.deque': lambda: dj.deque('dq'),
        'Index(directory)': lambda: dc.Index(os.path.join(d, 'ix')),
        'Index(directory, mapping)': lambda: dc.Index(os.path.join(d, 'ix2'), {'seed': 1}),
        'FanoutCache.index': lambda: fan.index('an/index'),
        'DjangoCache.index': lambda: dj.index('ix'),
    }
    return doors, [fan, dj, base]


def containers_never_evict(dc, sc, res, rng, label):
    d = sc.new()
    os.makedirs(d)
    doors, owners = container_doors(dc, d)
    try:
        for name, make in sorted(doors.items()):
            obj = make()
            cache = obj.cache
            is_deque = hasattr(obj, 'appendleft')
            before = len(obj)
            limit = gen.pick(rng, [0, 1, 20000, 60000])
            cache.reset('size_limit', limit)            # the container is far beyond this after a few items
            cull_limit = cache.cull_limit
            n = rng.randrange(40, 90)
            vals = ['item-%03d;' % i * rng.choice([1, 400]) for i in range(n)]
            for i, v in enumerate(vals):
                if is_deque:
                    obj.append(v) if i % 3 else obj.appendleft(v)
                else:
                    obj['k%03d' % i] = v
            res.count('container_writes_beyond_limit', n)
            res.count('evaluations')
            res.seen('evict_cells', ('container', name, limit))
            wit = {'label': label, 'door': name, 'size_limit': limit, 'cull_limit': cull_limit,
                   'eviction_policy': cache.eviction_policy, 'volume': cache.volume()}
            if len(obj) != before + n:
                res.violation('%s lost items to eviction: %d of %d stored items are left (policy %r)' % (
                    name, len(obj) - before, n, cache.eviction_policy), wit)
                continue
            got = sorted(x for x in obj if x != 'seed') if is_deque else sorted(obj[k] for k in obj if k != 'seed')
            if got != sorted(vals):
                res.violation('%s holds other items than were stored' % name, wit)
                continue
            removed = cache.cull()
            if removed or len(obj) != before + n:
                res.violation('cull() on the cache of %s removed %d item(s)' % (name, removed), wit)
                continue
            res.count('container_doors_checked')
    finally:
        for o in owners:
            try:
                o.close()
            except Exception:      # noqa: BLE001
                pass
        sc.drop(d)


def run_shard(tier, seed, shard, nshards, res):
    dc = common.use_repo()
    probe.install()
    pols = list(POL)
    with common.Scratch() as sc:
        n = 8 if tier == 'quick' else 60
        for i in range(n):
            rng = common.rng_for(seed, 'c09', shard, i)
            kind = 'fanout' if i % 4 == 3 else 'cache'
            pol = pols[(shard + i) % 4]
            cl = [0, 1, 2, 10][(shard // 4 + i) % 4] if pol != 'none' else gen.pick(rng, [1, 10])
            if rng.random() < 0.7 and cl == 0:
                cl = gen.pick(rng, [1, 2, 10])
            limit = gen.pick(rng, [48, 100, 200, 400, 0 if rng.random() < 0.3 else 64]) * 1024
            if kind == 'fanout':
                limit = gen.pick(rng, [160, 240, 400, 0 if rng.random() < 0.5 else 96]) * 1024
            cfg = {'eviction_policy': pol, 'cull_limit': cl, 'size_limit': limit, 'disk_min_file_size': T,
                   'statistics': rng.random() < 0.2}
            history(dc, sc, res, rng, kind, cfg, 'c09 seed=%d shard=%d i=%d' % (seed, shard, i))
            if res.new_violations() > 8:
                return
        probe.set_clock(None)
        for i in range(1 if tier == 'quick' else 6):
            rng = common.rng_for(seed, 'c09d', shard, i)
            containers_never_evict(dc, sc, res, rng, 'c09 containers seed=%d shard=%d i=%d' % (seed, shard, i))
