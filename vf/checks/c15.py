"""C15 - Lock, RLock and BoundedSemaphore exclude across threads and processes."""

import json
import os
import pickle
import subprocess
import threading
import time

from .. import common, gen, probe
from ..sched import LateHandles, Sched, store_gates

PROP = 'C15'
LEVEL = 'exploration'
RULE = ('2-4 contenders (threads sharing one Cache, threads with their own Cache, FanoutCache) run acquire / critical '
        'section / release loops with Lock, RLock (nesting depth 1-3), BoundedSemaphore(1..3) and barrier-wrapped '
        'functions under the schedule fuzzer; an independent witness (os.mkdir/rmdir of a witness directory plus '
        'enter/exit stamps strictly inside the hold period) counts concurrent holders; refusal of foreign/excess '
        'releases and bounded progress of waiters are asserted; in barrier schedules (Lock or BoundedSemaphore factory) '
        'failpoints make a statement of a contender that is still waiting raise, after which the holder must still be '
        'alone; free-running OS processes repeat the witness check with '
        'CLOCK_MONOTONIC stamps. evaluations = schedules and process runs judged; distinct_nontrivial = distinct '
        'schedules in which a contender was preempted while holding')
DISTINCT = ('schedules_preempted_while_holding', 'process_runs')
REQUIRED = ('housekeeping_calls_beside_lock_holders', 'schedules_on_jsondisk', 'recipe_arguments_by_position', 'barrier_rounds_beside_a_direct_holder', 'critical_sections_that_failed', 'with_statement_sections', 'schedules_lock', 'schedules_rlock', 'schedules_semaphore', 'schedules_barrier', 'critical_sections',
            'contended_acquires', 'nested_acquires', 'refused_releases', 'process_runs_done', 'fanout_schedules',
            'fork_runs_done', 'waiting_contenders_failed_by_injection', 'contenders_with_pickled_handles')
ASSUMPTIONS = ('witness intervals lie strictly inside the claimed hold period, so an overlap is a proof and clock '
               'granularity can only hide one', 'expire is not used on the locks (an expiring lock frees by design)')


def plan(tier):
    return {'nshards': 16 if tier == 'quick' else 48, 'timeout': 900 if tier == 'quick' else 3600}


def schedule(dc, sc, res, rng, label, kind):
    d = sc.new()
    wit = os.path.join(sc.root, 'witness-%d' % sc.n)
    clock = probe.set_clock(probe.VClock())
    topo = rng.choice(['shared', 'separate', 'fanout'])
    n = rng.randrange(2, 5)
    if topo == 'fanout':
        # a shard count other than the default, and some contenders hold a pickled copy of the handle (what a worker
        # process or a task queue would get): the lock record must live in the same shard for all of them
        base = dc.FanoutCache(d, shards=rng.choice([2, 3, 5, 13]), timeout=0)
        caches = [base if rng.random() < 0.5 else pickle.loads(pickle.dumps(base)) for _ in range(n)]
        res.count('fanout_schedules')
        res.count('contenders_with_pickled_handles', sum(1 for c in caches if c is not base))
    else:
        # the cache may have been created with another Disk class and a setting of its own (JSONDisk, compress level 6)
        # that the other contenders' handles do not repeat: they name the class (it is not stored) and find the rest
        json_disk = rng.random() < 0.4
        first_kw = {'disk': dc.JSONDisk, 'disk_compress_level': 6} if json_disk else {}
        later_kw = {'disk': dc.JSONDisk} if json_disk else {}
        res.count('schedules_on_jsondisk' if json_disk else 'schedules_on_disk')
        # bystanders: in a third of these schedules one or two further threads store items that are already expired and
        # call expire() / cull() / evict() now and then (cull_limit 0, so that only those calls remove them): house-keeping
        # on the cache that holds the lock takes nothing away from whoever holds it
        bystanders = rng.randrange(1, 3) if rng.random() < 0.33 else 0
        if bystanders:
            first_kw = dict(first_kw, cull_limit=0)
            res.count('schedules_with_housekeeping_bystanders')
        base = dc.Cache(d, timeout=0, **first_kw)
        caches = LateHandles(rng, n, lambda: dc.Cache(d, timeout=0, **later_kw), shared=base if topo == 'shared' else None,
                             reopen=0.0, first=base if rng.random() < (0.9 if json_disk else 0.5) else None)
    value = rng.randrange(1, 4) if kind == 'semaphore' else 1
    # the lock lives under an ordinary cache key: any key is legal, falsy ones too
    lock_key = rng.choice(['the-lock', 'the-lock', '', 0, b'', ('lock', 1), 0.0])
    if topo != 'fanout' and json_disk and isinstance(lock_key, bytes):
        lock_key = 'the-lock'        # (bytes are not JSON)
    if topo != 'fanout' and bystanders:
        # what a holder that died long ago left behind: a row under the lock's key whose lease has run out (it counts
        # as absent; the first acquire rewrites it in place)
        base.set(lock_key, None, expire=-1)
    res.count('lock_keys_falsy' if not lock_key else 'lock_keys_other')
    sch = Sched(rng, clock, strategy=rng.choice(['random', 'random', 'preempt']), max_steps=12000,
                preempt_points={rng.randrange(0, 300) for _ in range(4)})
    if store_gates(sch, rng, dc):
        res.count('schedules_with_attribute_store_gates')
    # failpoints: a contender that is still waiting to get in (somebody else is inside) fails with an exception at one of
    # its gates; it must simply not get in - the holder's exclusion is not its to give away
    inject = kind == 'barrier' and rng.random() < 0.6
    factory = rng.choice([dc.Lock, dc.Lock, dc.BoundedSemaphore]) if kind == 'barrier' else None
    budget = [rng.randrange(1, 4)]
    direct_holder = rng.random() < 0.5

    class InjectedFault(Exception):
        pass

    class SectionFailed(Exception):
        pass

    def fault_hook(client, gate_label):
        if getattr(client, 'phase', None) == 'acquire' and holders[0] > 0 and budget[0] > 0 \
                and gate_label in ('pre:BEGIN', 'pre:SELECT', 'pre:INSERT', 'pre:UPDATE', 'pre:DELETE') \
                and rng.random() < 0.3:            # (a statement fails; the COMMIT / ROLLBACK that ends the transaction does not)
            budget[0] -= 1
            return InjectedFault('injected at %s' % gate_label)
        return None
    if inject:
        sch.fault_hook = fault_hook
    events = []          # (stamp, +1/-1, contender)
    holders = [0]
    peak = [0]
    problems = []
    state = {'free_since': 0, 'waiting': {}}

    def make(ci):
        c = caches[ci]
        if kind == 'lock' or kind == 'barrier':
            return dc.Lock(c, lock_key)
        if kind == 'rlock':
            return dc.RLock(c, lock_key)
        # (the documented parameter order is (cache, key, value, expire, tag): by keyword or by position)
        how = rng.randrange(3)
        res.count('recipe_arguments_by_position', 1 if how else 0)
        return [lambda: dc.BoundedSemaphore(c, lock_key, value=value), lambda: dc.BoundedSemaphore(c, lock_key, value),
                lambda: dc.BoundedSemaphore(c, lock_key, value, None, None)][how]()

    def critical(ci):
        me = sch._me()
        if me is not None:
            me.holding = True
            me.phase = 'inside'
        holders[0] += 1
        peak[0] = max(peak[0], holders[0])
        if holders[0] > value:
            problems.append('%d concurrent holders (limit %d), contender %d entered' % (holders[0], value, ci))
        events.append((sch.now(), 1, ci))
        if value == 1:
            try:
                os.mkdir(wit)
            except FileExistsError:
                problems.append('witness directory already exists: two holders (contender %d)' % ci)
        res.count('critical_sections')
        for _ in range(rng.randrange(1, 3)):
            caches[ci].get('unrelated-key')       # gates inside the critical section
        if value == 1:
            try:
                os.rmdir(wit)
            except FileNotFoundError:
                problems.append('witness directory vanished while held (contender %d)' % ci)
        events.append((sch.now(), -1, ci))
        holders[0] -= 1
        state['last_exit_step'] = sch.steps
        if me is not None:
            me.holding = False
            me.phase = 'release'

    def contender(ci):
        def run():
            lock = make(ci)
            me = sch._me()
            me.holding = False
            for rnd in range(rng.randrange(2, 5)):
                # a critical section may fail: what was taken for it is given back all the same
                fails = rng.random() < 0.2
                if kind == 'barrier':
                    # every contender wraps a function of its own (another qualified name) under the one barrier name,
                    # and the last contender takes the lock of that name directly: they all exclude each other
                    def work():
                        critical(ci)
                        if fails:
                            raise SectionFailed()
                    work.__qualname__ = 'contender_%d.work' % ci
                    work.__name__ = 'work_%d' % ci
                    if ci == n - 1 and direct_holder:
                        direct = factory(caches[ci], lock_key)

                        def work(inner=work):      # noqa: F811
                            with direct:
                                inner()
                        res.count('barrier_rounds_beside_a_direct_holder')
                    else:
                        how = rng.randrange(3)
                        res.count('recipe_arguments_by_position', 1 if how else 0)
                        work = [lambda: dc.barrier(caches[ci], factory, name=lock_key),
                                lambda: dc.barrier(caches[ci], factory, lock_key),
                                lambda: dc.barrier(caches[ci], factory, lock_key, None, None)][how]()(work)
                    me.phase = 'acquire'
                    try:
                        work()
                    except InjectedFault:
                        if me.phase != 'acquire':
                            raise
                        res.count('waiting_contenders_failed_by_injection')
                    except SectionFailed:
                        res.count('critical_sections_that_failed')
                    me.phase = 'idle'
                    continue
                depth = rng.randrange(1, 4) if kind == 'rlock' else 1
                if rng.random() < 0.4:
                    # the `with` form
                    import contextlib
                    try:
                        with contextlib.ExitStack() as stack:
                            for _ in range(depth):
                                stack.enter_context(lock)
                            if depth > 1:
                                res.count('nested_acquires')
                            critical(ci)
                            if fails:
                                raise SectionFailed()
                    except SectionFailed:
                        res.count('critical_sections_that_failed')
                    res.count('with_statement_sections')
                    continue
                for _ in range(depth):
                    lock.acquire()
                if depth > 1:
                    res.count('nested_acquires')
                critical(ci)
                for i in range(depth):
                    lock.release()
                    if kind == 'rlock' and i < depth - 1:
                        # still held: nobody else may enter now
                        caches[ci].get('unrelated-key')
                        if holders[0] != 0:
                            problems.append('another contender entered while the RLock was still held %d times' % (depth - i - 1))
            # releasing what is not held is refused
            if kind == 'rlock':
                try:
                    lock.release()
                    problems.append('%s.release() of something not held was accepted (contender %d)' % (kind, ci))
                except AssertionError:
                    res.count('refused_releases')
                    if kind == 'semaphore':
                        pass
        return run

    class Mon(Sched):
        pass

    try:
        def bystander(bi):
            c = dc.Cache(d, timeout=0, **later_kw)

            def run():
                try:
                    for r in range(rng.randrange(2, 5)):
                        if r:
                            c.set('junk-%d-%d' % (bi, r), r, expire=-1, tag='junk', retry=True)
                        what = rng.choice(['expire', 'expire', 'cull', 'evict']) if r else 'expire'
                        if what == 'expire':
                            c.expire(retry=True)
                        elif what == 'cull':
                            c.cull(retry=True)
                        else:
                            c.evict('junk', retry=True)
                        res.count('housekeeping_calls_beside_lock_holders')
                finally:
                    c.close()
            return run
        extra = [bystander(b) for b in range(bystanders)] if topo != 'fanout' else []
        ok = sch.run([contender(i) for i in range(n)] + extra)
        probe.set_controller(None)
        extra = {'label': label, 'kind': kind, 'topology': topo, 'contenders': n, 'value': value,
                 'trace_hash': sch.trace_hash()}
        errs = sch.errors()
        if errs:
            res.violation('contender died: %s' % errs[0][1][1][-500:], extra)
            return
        if problems:
            res.violation(problems[0], dict(extra, problems=problems[:5], events=events[:40]))
            return
        if not ok:
            # bounded progress: the step cap was reached although the resource was free
            free = holders[0] == 0 and sch.steps - state.get('last_exit_step', 0) > 3000
            if free and not any(getattr(c, 'holding', False) for c in sch.clients):
                res.violation('contenders still waiting after %d scheduler steps although nobody holds the %s' % (
                    sch.steps, kind), extra)
            else:
                res.count('schedules_hit_step_cap')
            return
        res.count('schedules_' + kind)
        res.count('evaluations')
        res.count('contended_acquires', sch.lock_waits + clock.sleeps)
        if any(getattr(c, 'preempted_holding', False) for c in sch.clients) or sch.preemptions_in_op or sch.preemptions:
            res.seen('schedules_preempted_while_holding', sch.trace_hash())
        # releasing a free Lock leaves it free
        if kind == 'semaphore':
            # a semaphore is not owned: the bound is what is enforced, once nobody holds it
            sem = dc.BoundedSemaphore(base, lock_key, value=value)
            try:
                sem.release()
                res.violation('BoundedSemaphore.release() beyond its bound was accepted', extra)
            except AssertionError:
                res.count('refused_releases')
            for _ in range(value):
                sem.acquire()
            sem.release()
        if kind == 'lock':
            lk = dc.Lock(base, lock_key)
            lk.release()
            if lk.locked():
                res.violation('releasing a free Lock left it locked', extra)
        if len(res.samples) < 2:
            res.sample({'label': label, 'kind': kind, 'topology': topo, 'contenders': n, 'peak_holders': peak[0],
                        'events_head': events[:16]})
    finally:
        probe.set_controller(None)
        for c in list({id(x): x for x in (caches.all() if hasattr(caches, 'all') else caches) + [base]}.values()):
            try:
                c.close()
            except Exception:      # noqa: BLE001
                pass
        sc.drop(d)


CHILD = r'''
import json, os, random, sys, time
sys.path.insert(0, %(verif)r)
from vf import common, probe
dc = common.use_repo()
probe.install(audit=False)
d, wit, kind, ci, seed, rounds, value = sys.argv[1], sys.argv[2], sys.argv[3], int(sys.argv[4]), int(sys.argv[5]), int(sys.argv[6]), int(sys.argv[7])
rng = random.Random(seed * 100 + ci)
class Delay:
    def gate(self, label, info=None):
        if rng.random() < 0.15:
            time.sleep(rng.random() * 0.002)
probe.set_controller(Delay())
cache = dc.Cache(d, timeout=60)
lock = {'lock': lambda: dc.Lock(cache, 'L'), 'rlock': lambda: dc.RLock(cache, 'L'),
        'semaphore': lambda: dc.BoundedSemaphore(cache, 'L', value=value)}[kind]()
out = []
for r in range(rounds):
    depth = rng.randrange(1, 3) if kind == 'rlock' else 1
    for _ in range(depth):
        lock.acquire()
    t0 = time.monotonic_ns()
    clash = False
    if value == 1:
        try:
            os.mkdir(wit)
        except FileExistsError:
            clash = True
    time.sleep(rng.random() * 0.003)
    if value == 1 and not clash:
        os.rmdir(wit)
    t1 = time.monotonic_ns()
    for _ in range(depth):
        lock.release()
    out.append([t0, t1, clash])
print(json.dumps(out))
'''


def process_run(dc, sc, res, rng, seed, label):
    d = sc.new()
    wit = d + '-witness'
    dc.Cache(d).close()
    kind = rng.choice(['lock', 'rlock', 'semaphore'])
    value = rng.randrange(1, 4) if kind == 'semaphore' else 1
    n = rng.randrange(2, 5)
    code = CHILD % {'verif': common.VERIF}
    env = dict(os.environ, VF_REPO=common.REPO, PYTHONDONTWRITEBYTECODE='1')
    procs = [subprocess.Popen([common.PY, '-c', code, d, wit, kind, str(ci), str(seed), '8', str(value)],
                              stdout=subprocess.PIPE, stderr=subprocess.PIPE, env=env) for ci in range(n)]
    ivs = []
    for ci, p in enumerate(procs):
        try:
            so, se = p.communicate(timeout=120)
        except subprocess.TimeoutExpired:
            for q in procs:
                q.kill()
            res.inconclusive.append('lock process run hit the 120 s watchdog (%s)' % label)
            sc.drop(d)
            return
        if p.returncode:
            res.violation('lock contender process died: %s' % se.decode()[-400:], {'label': label, 'kind': kind})
            sc.drop(d)
            return
        for t0, t1, clash in json.loads(so):
            ivs.append((t0, t1, ci, clash))
    sc.drop(d)
    res.count('process_runs_done')
    res.count('evaluations')
    res.seen('process_runs', (label, kind, n))
    if any(c for _, _, _, c in ivs):
        res.violation('witness directory existed on entry: two processes held the %s' % kind, {'label': label})
        return
    pts = sorted([(t0, 1) for t0, _, _, _ in ivs] + [(t1, -1) for _, t1, _, _ in ivs], key=lambda x: (x[0], x[1]))
    cur = 0
    for _, delta in pts:
        cur += delta
        if cur > value:
            res.violation('%d processes inside the %s at once (limit %d)' % (cur, kind, value), {'label': label})
            return


def fork_run(dc, sc, res, rng, label):
    """The lock object (and a barrier-wrapped function) is built in the parent and used by forked children: exclusion
    must hold between the parent and its children and among the children."""
    import time as _t
    d = sc.new()
    wit = d + '-witness'
    kind = rng.choice(['lock', 'rlock', 'semaphore', 'barrier-rlock'])
    cache = dc.Cache(d, timeout=60)
    lock = {'lock': lambda: dc.Lock(cache, 'L'), 'rlock': lambda: dc.RLock(cache, 'L'),
            'semaphore': lambda: dc.BoundedSemaphore(cache, 'L', value=1),
            'barrier-rlock': lambda: dc.RLock(cache, 'L')}[kind]()

    def section(out):
        t0 = _t.monotonic_ns()
        clash = False
        try:
            os.mkdir(wit)
        except FileExistsError:
            clash = True
        _t.sleep(0.002)
        if not clash:
            os.rmdir(wit)
        out.append([t0, _t.monotonic_ns(), clash])

    wrapped = dc.barrier(cache, dc.RLock, name='B')(section) if kind == 'barrier-rlock' else None

    def loop(rounds, out):
        for _ in range(rounds):
            if wrapped is not None:
                wrapped(out)
            else:
                lock.acquire()
                try:
                    section(out)
                finally:
                    lock.release()
    # the parent holds the lock while the children start
    if wrapped is None:
        lock.acquire()
    pids, files = [], []
    for ci in range(rng.randrange(2, 4)):
        path = '%s.child%d' % (d, ci)
        files.append(path)
        pid = os.fork()
        if pid == 0:
            code = 0
            try:
                out = []
                loop(6, out)
                with open(path, 'w') as f:
                    json.dump(out, f)
            except BaseException:      # noqa: BLE001
                import traceback
                traceback.print_exc()
                code = 3
            os._exit(code)
        pids.append(pid)
    mine = []
    if wrapped is None:
        section(mine)            # still inside the hold period taken before the fork
        _t.sleep(0.02)
        lock.release()
    loop(4, mine)
    ok = True
    for pid in pids:
        _, status = os.waitpid(pid, 0)
        ok &= status == 0
    cache.close()
    ivs = list(mine)
    for path in files:
        if os.path.exists(path):
            ivs.extend(json.load(open(path)))
            os.unlink(path)
    sc.drop(d)
    if os.path.isdir(wit):
        os.rmdir(wit)
    if not ok:
        res.violation('a forked child using the inherited %s failed' % kind, {'label': label, 'kind': kind})
        return
    res.count('fork_runs_done')
    res.count('evaluations')
    res.seen('process_runs', (label, kind, 'fork'))
    if any(c for _, _, c in ivs):
        res.violation('witness directory existed on entry: a forked child and another process were inside the %s at once'
                      % kind, {'label': label, 'kind': kind})
        return
    pts = sorted([(a, 1) for a, _, _ in ivs] + [(b, -1) for _, b, _ in ivs], key=lambda x: (x[0], x[1]))
    cur = 0
    for _, delta in pts:
        cur += delta
        if cur > 1:
            res.violation('%d processes inside the %s at once (forked children share the lock object built by their parent)'
                          % (cur, kind), {'label': label, 'kind': kind})
            return


def run_shard(tier, seed, shard, nshards, res):
    dc = common.use_repo()
    probe.install()
    with common.Scratch() as sc:
        kinds = ['lock', 'rlock', 'semaphore', 'barrier']
        for i in range(60 if tier == 'quick' else 1200):
            rng = common.rng_for(seed, 'c15', shard, i)
            schedule(dc, sc, res, rng, 'c15 seed=%d shard=%d i=%d' % (seed, shard, i), kinds[i % 4])
            if res.new_violations() > 6:
                return
        probe.reset()
        for i in range(1 if tier == 'quick' else 6):
            rng = common.rng_for(seed, 'c15p', shard, i)
            process_run(dc, sc, res, rng, seed * 1000 + shard * 10 + i, 'c15 processes seed=%d shard=%d i=%d' % (seed, shard, i))
            fork_run(dc, sc, res, rng, 'c15 fork seed=%d shard=%d i=%d' % (seed, shard, i))
