"""C08 - counters, rows and value files agree once no operation is in flight."""

import errno
import io
import sqlite3

from .. import common, fault, gen, observe, probe
from ..driver import CacheDriver, Mismatch
from ..model import Ambiguous
from ..sched import Recorder, Sched, store_gates
from . import c03, c05

PROP = 'C08'
LEVEL = 'fault_enumeration'
RULE = ('(ii) for every mutating operation of a table of ~30 operations (all storage transitions, queue and bulk '
        'operations, committed and aborted blocks) a dry run counts its failpoint gates and then ONE failure is '
        'injected at EACH of them in turn (sqlite3.OperationalError before a SELECT/INSERT/UPDATE/DELETE, OSError at '
        'value-file create/write/close/mkdir/read, once and persistently); plus unencodable values (unpicklable, '
        'lone surrogates on both sides of the threshold, readers raising mid-stream, unbindable tags); (iii) lock '
        'timeouts; (i) random full-API histories; (iv) small concurrent programs under the schedule fuzzer. After each '
        'the quiescent invariant (Settings.count == rows, Settings.size == SUM(size), every referenced file exists with '
        'the recorded size, no unreferenced file), check(), len() and volume() are evaluated, then further operations '
        'must work. evaluations = invariant evaluations; distinct_nontrivial = distinct (operation, gate kind, '
        'position, persistent) failpoints + distinct unencodable cases')
DISTINCT = ('failpoints', 'unencodable_cases', 'concurrent_schedules')
REQUIRED = ('programs_with_removals_beside_abandoned_blocks', 'lazy_culls_mixing_expiry_and_eviction', 'failpoints_injected', 'ops_with_all_gates_enumerated', 'unencodable_values', 'lock_timeouts',
            'history_calls', 'concurrent_programs', 'failures_after_file_written', 'expired_file_row_paths',
            'failures_injected_into_concurrent_programs', 'handles_opened_during_concurrent_programs',
            'timeouts_under_commit_contention',
            'nested_failures_handled_and_committed')
ASSUMPTIONS = ('fault model: a statement other than COMMIT/ROLLBACK fails (SQLite rolls the statement back), a file '
               'operation other than unlink/rmdir fails; a failing unlink makes the property unsatisfiable for any '
               'implementation and is outside the model', 'single failure per operation')

T = 64


def plan(tier):
    return {'nshards': 16 if tier == 'quick' else 48, 'timeout': 900 if tier == 'quick' else 3600}


BIGS = 'S\u00e9' * (T // 2 + 15)       # file-backed text: more bytes than characters
BIGB = b'B' * (T + 20)
BIGP = ['P' * (T + 40), 2]


def op_table():
    """(name, setup(cache), action(cache))"""
    def base(c):
        c.set('s', 'small', tag='t')
        c.set('f', BIGS, tag='t', expire=1000)
        c.set('b', BIGB)
        c.set('p', BIGP)
        c.set('n', 5)
        c.push(BIGS, prefix='q')
        c.push('inline', prefix='q')
        c.push(BIGB)

    def blk_commit(c):
        with c.transact():
            c.set('f', 'now-small')
            c.set('x', BIGS)
            c.pop('b')
            c.pull(prefix='q')

    def blk_abort(c):
        with c.transact():
            c.set('f', 'now-small')
            c.set('x', BIGS)
            c.delete('p')
            c.pull(prefix='q')
            raise fault.Injected()

    T_ = [
        ('set new inline', base, lambda c: c.set('new', 'v')),
        ('set new text file', base, lambda c: c.set('new', BIGS)),
        ('set new binary file', base, lambda c: c.set('new', BIGB, tag='t')),
        ('set new pickle file', base, lambda c: c.set('new', BIGP)),
        ('set stream', base, lambda c: c.set('new', io.BytesIO(BIGB * 3), read=True)),
        ('replace inline->file', base, lambda c: c.set('s', BIGS)),
        ('replace file->inline', base, lambda c: c.set('f', 'v')),
        ('replace file->file', base, lambda c: c.set('f', BIGB)),
        ('setitem file->file', base, lambda c: c.__setitem__('b', BIGS)),
        ('add new file', base, lambda c: c.add('new', BIGS)),
        ('add on present', base, lambda c: c.add('f', BIGB)),
        ('incr existing', base, lambda c: c.incr('n', 2)),
        ('incr new', base, lambda c: c.incr('m', 2)),
        ('touch', base, lambda c: c.touch('f', 10)),
        ('get file (statistics)', base, lambda c: c.get('f')),
        ('get read handle', base, lambda c: c.get('b', read=True).close()),
        ('pop file', base, lambda c: c.pop('f')),
        ('pop inline', base, lambda c: c.pop('s')),
        ('delete file', base, lambda c: c.delete('b')),
        ('delitem file', base, lambda c: c.__delitem__('p')),
        ('push file', base, lambda c: c.push(BIGP, prefix='q')),
        ('push front inline', base, lambda c: c.push('v', side='front')),
        ('pull file', base, lambda c: c.pull(prefix='q')),
        ('pull int queue', base, lambda c: c.pull()),
        ('peek', base, lambda c: c.peek(prefix='q')),
        ('peekitem', base, lambda c: c.peekitem()),
        ('clear', base, lambda c: c.clear()),
        ('evict', base, lambda c: c.evict('t')),
        ('expire', base, lambda c: c.expire(now=2e9)),
        ('cull', base, lambda c: c.cull()),
        ('block commit', base, blk_commit),
        ('block abort', base, blk_abort),
        # persistent containers built on a cache (their own keys live in the same table)
        ('Deque.append at maxlen', base, lambda c: _dq(c, 3).append(BIGS)),
        ('Deque.appendleft at maxlen', base, lambda c: _dq(c, 3).appendleft(BIGB)),
        ('Deque.rotate', base, lambda c: _dq(c, None).rotate(2)),
        ('Deque.popleft', base, lambda c: _dq(c, None).popleft()),
        ('Deque.extend', base, lambda c: _dq(c, 4).extend([BIGS, 'x', BIGB])),
        ('Index.popitem', base, lambda c: _ix(c).popitem()),
        ('Index.setdefault new', base, lambda c: _ix(c).setdefault('fresh', BIGS)),
        ('Index.update', base, lambda c: _ix(c).update({'u1': BIGS, 's': BIGB})),
        ('Index.pop file', base, lambda c: _ix(c).pop('f')),
    ]
    return T_


def _dq(c, maxlen):
    import diskcache
    return diskcache.Deque.fromcache(c, maxlen=maxlen)


def _ix(c):
    import diskcache
    return diskcache.Index.fromcache(c)


class Unpicklable:
    def __reduce__(self):
        raise TypeError('cannot pickle me')


class BadReader:
    def __init__(self, good_chunks):
        self.n = good_chunks

    def read(self, size=-1):
        if self.n <= 0:
            raise IOError('reader failed mid-stream')
        self.n -= 1
        return b'x' * 50


def unencodable_cases():
    sur_small = 'a\ud800'
    sur_big = 'a\ud800' + 'z' * (T + 5)
    return [
        ('unpicklable value', lambda c: c.set('u', Unpicklable())),
        ('unpicklable big container', lambda c: c.set('u', [BIGS, Unpicklable()])),
        ('unpicklable key', lambda c: c.set((1, Unpicklable()), BIGS)),
        ('lone surrogate inline', lambda c: c.set('u', sur_small)),
        ('lone surrogate file', lambda c: c.set('u', sur_big)),
        ('lone surrogate file replace', lambda c: c.set('f', sur_big)),
        ('lone surrogate add', lambda c: c.add('u', sur_big)),
        ('lone surrogate push', lambda c: c.push(sur_big, prefix='q')),
        ('reader fails at first chunk', lambda c: c.set('u', BadReader(0), read=True)),
        ('reader fails mid-stream', lambda c: c.set('u', BadReader(2), read=True)),
        ('reader fails mid-stream add', lambda c: c.add('u', BadReader(1), read=True)),
        ('unbindable tag, file value', lambda c: c.set('u', BIGS, tag=object())),
        ('unbindable tag, replace file', lambda c: c.set('f', BIGB, tag=object())),
        ('unbindable tag, add', lambda c: c.add('u', BIGB, tag=[1])),
        ('unbindable tag, push', lambda c: c.push(BIGB, prefix='q', tag={})),
        ('bad expire type', lambda c: c.set('u', BIGS, expire='soon')),
        ('incr non-numeric file', lambda c: c.incr('f', 1)),
        ('incr overflow', lambda c: (c.set('big', 2**63 - 1), c.incr('big', 1))),
        ('lone surrogate key', lambda c: c.set('k\ud800', BIGS)),
        ('unbindable tag in block', lambda c: in_block(c, lambda: c.set('u', BIGS, tag=object()))),
        ('lone surrogate in block', lambda c: in_block(c, lambda: c.set('u', sur_big))),
    ]


def in_block(c, fn):
    with c.transact():
        c.set('blk', BIGB)
        fn()


def quiescent_problems(dc, cache, d, obs):
    problems = list(observe.invariant(d, obs))
    try:
        problems.extend(observe.check_warnings(cache))
        rows, sets = obs.snapshot()
        if len(cache) != len(rows):
            problems.append('len() = %d but %d rows' % (len(cache), len(rows)))
        con = obs._connect()
        (pc,), = con.execute('PRAGMA page_count').fetchall()
        (ps,), = con.execute('PRAGMA page_size').fetchall()
        files = observe.list_files(d)[0]
        vol = cache.volume()
        if vol != pc * ps + sum(files.values()):
            problems.append('volume() = %d but pages %d*%d + files %d' % (vol, pc, ps, sum(files.values())))
    except Exception as exc:       # noqa: BLE001
        problems.append('bookkeeping calls failed: %s: %s' % (type(exc).__name__, exc))
    return problems


# ------------------------------------------- every path that meets an expired, file-backed row
def expired_row_paths():
    def blk_abort(fn):
        def run(c):
            try:
                with c.transact():
                    fn(c)
                    raise fault.Injected()
            except fault.Injected:
                pass
        return run
    P = {
        'pull front': lambda c: c.pull(), 'pull back': lambda c: c.pull(side='back'),
        'pull prefix': lambda c: c.pull(prefix='q'), 'pull prefix back': lambda c: c.pull(prefix='q', side='back'),
        'peek front': lambda c: c.peek(), 'peek prefix back': lambda c: c.peek(prefix='q', side='back'),
        'peekitem last': lambda c: c.peekitem(), 'peekitem first': lambda c: c.peekitem(last=False),
        'pop': lambda c: c.pop('k'), 'get': lambda c: c.get('k'), 'getitem': lambda c: c['k'], 'contains': lambda c: 'k' in c,
        'read': lambda c: c.read('k'), 'add file': lambda c: c.add('k', BIGB), 'add inline': lambda c: c.add('k', 1),
        'set file': lambda c: c.set('k', BIGB), 'set inline': lambda c: c.set('k', 1),
        'incr': lambda c: c.incr('k'), 'decr default': lambda c: c.decr('k', default=5), 'touch': lambda c: c.touch('k', 9),
        'delete': lambda c: c.delete('k'), 'expire': lambda c: c.expire(), 'cull': lambda c: c.cull(),
        'evict': lambda c: c.evict('t'), 'clear': lambda c: c.clear(),
        'push behind': lambda c: c.push(BIGS), 'push prefix front': lambda c: c.push(BIGS, prefix='q', side='front'),
        'lazy cull by a write': lambda c: (c.reset('cull_limit', 10), c.set('other', 1)),
    }
    for name in ('pull front', 'pull prefix', 'pop', 'add file', 'set inline', 'incr', 'expire', 'peekitem last', 'delete'):
        P[name + ' in an aborted block'] = blk_abort(P[name])
    return P


def expired_file_rows(dc, sc, res, shard, nshards):
    """Rows whose expiry time has passed but which are still stored, with their values in files, met by every call
    that can come across them; afterwards rows, counters and files must agree."""
    for i, (name, fn) in enumerate(sorted(expired_row_paths().items())):
        for variant in range(2):
            if (2 * i + variant) % nshards != shard:
                continue
            d = sc.new()
            clock = probe.set_clock(probe.VClock())
            cache = dc.Cache(d, disk_min_file_size=T, cull_limit=0, eviction_policy=['least-recently-stored', 'none'][variant])
            obs = observe.Observer(d)
            try:
                cache.set('k', BIGS, expire=1, tag='t')
                cache.push(BIGB, expire=1, tag='t')
                cache.push(BIGS, prefix='q', expire=1)
                if variant:
                    cache.push(BIGB, expire=1)
                    cache.push(BIGS, prefix='q', expire=1, tag='t')
                    cache.set('live', BIGS, tag='t')
                clock.advance(5.0)
                try:
                    fn(cache)
                except (KeyError, fault.Injected):
                    pass
                res.count('expired_file_row_paths')
                res.count('evaluations')
                problems = quiescent_problems(dc, cache, d, obs)
                if problems:
                    res.violation('%s over expired file-backed rows: %s' % (name, problems[:3]),
                                  {'path': name, 'variant': variant})
                    continue
                # and once they are all gone nothing is left behind
                cache.expire()
                if variant:
                    cache.delete('live')
                cache.delete('other')
                cache.delete('k')
                while cache.pull()[0] is not None or cache.pull(prefix='q')[0] is not None:
                    pass
                files = observe.list_files(d)[0]
                if files or len(cache):
                    res.violation('%s over expired file-backed rows: after removing everything %d items and files %r remain' % (
                        name, len(cache), sorted(files)[:3]), {'path': name, 'variant': variant})
            finally:
                obs.close()
                cache.close()
                probe.set_clock(None)
                sc.drop(d)


# ------------------------- one lazy cull that removes expired items AND evicts by policy, values in files
def mixed_culls(dc, sc, res, shard, nshards):
    """A write whose lazy cull first removes k expired items (0 < k < cull_limit) and then, the cache still being over
    its limit, evicts by policy: rows, counters and files must agree afterwards, whatever the split."""
    n = 0
    for policy in ('least-recently-stored', 'least-recently-used', 'least-frequently-used'):
        for cull_limit in (2, 3, 10):
            for k in sorted({1, cull_limit - 1, cull_limit // 2} - {0}):
                for write in ('set', 'add', 'incr', 'push', 'setitem'):
                    n += 1
                    if n % nshards != shard:
                        continue
                    d = sc.new()
                    clock = probe.set_clock(probe.VClock())
                    cache = dc.Cache(d, disk_min_file_size=T, cull_limit=cull_limit, eviction_policy=policy)
                    obs = observe.Observer(d)
                    try:
                        for i in range(14):
                            cache.set('lasting-%d' % i, BIGS if i % 2 else BIGB)
                        for i in range(k):
                            cache.set('expiring-%d' % i, BIGB, expire=2.0)      # (no expired rows yet: nothing is culled)
                        clock.advance(5.0)
                        cache.reset('size_limit', 1024)
                        before = len(cache)
                        {'set': lambda: cache.set('w', BIGS), 'add': lambda: cache.add('w', BIGB),
                         'incr': lambda: cache.incr('w'), 'push': lambda: cache.push(BIGS),
                         'setitem': lambda: cache.__setitem__('w', BIGB)}[write]()
                        removed = before + 1 - len(cache)
                        res.count('lazy_culls_mixing_expiry_and_eviction')
                        res.count('evaluations')
                        wit = {'policy': policy, 'cull_limit': cull_limit, 'expired_rows': k, 'write': write, 'removed': removed}
                        if removed != cull_limit:
                            res.violation('a %s with %d expired rows, cull_limit %d and the cache far over its limit removed %d items'
                                          % (write, k, cull_limit, removed), wit)
                            continue
                        problems = quiescent_problems(dc, cache, d, obs)
                        if problems:
                            res.violation('%s whose lazy cull removed %d expired rows and evicted %d by policy: %s' % (
                                write, k, cull_limit - k, problems[:3]), wit)
                    finally:
                        obs.close()
                        cache.close()
                        probe.set_clock(None)
                        sc.drop(d)


# ------------------------------------- a write fails INSIDE a block, the block handles it and commits
def nested_failures_handled(dc, sc, res, shard, nshards):
    """Inside a transact() block a nested write fails - its row statement is refused (a tag of a type SQLite cannot bind)
    or fails with an injected database / file error - the block catches the exception, does something else and commits.
    The failed call has no effect: the old value stays readable, and rows, counters and files agree."""
    bad_tag = object()
    ops = {
        'set over file': lambda c: c.set('f', BIGB, tag=bad_tag),
        'set over inline': lambda c: c.set('i', BIGS, tag=bad_tag),
        'set new file': lambda c: c.set('n', BIGS, tag=bad_tag),
        'add new file': lambda c: c.add('n', BIGB, tag=bad_tag),
        'push file': lambda c: c.push(BIGS, prefix='q', tag=bad_tag),
        'set stream': lambda c: c.set('f', io.BytesIO(BIGB), read=True, tag=bad_tag),
    }
    injected = {
        'set over file': lambda c: c.set('f', BIGB), 'set new file': lambda c: c.set('n', BIGS),
        'add new file': lambda c: c.add('n', BIGB), 'incr': lambda c: c.incr('num', 2), 'pop file': lambda c: c.pop('f'),
        'delete file': lambda c: c.delete('f'), 'push file': lambda c: c.push(BIGS, prefix='q'),
        'pull file': lambda c: c.pull(prefix='q'), 'touch': lambda c: c.touch('f', 30),
    }
    cases = [('refused row statement', name, fn, None) for name, fn in sorted(ops.items())]
    for name, fn in sorted(injected.items()):
        for n in range(1, 9):
            cases.append(('injected failure #%d' % n, name, fn, n))
    for i, (how, name, fn, n) in enumerate(cases):
        if i % nshards != shard:
            continue
        d = sc.new()
        cache = dc.Cache(d, disk_min_file_size=T)
        obs = observe.Observer(d)
        try:
            cache.set('f', BIGS, tag='t')
            cache.set('i', 'inline')
            cache.set('num', 5)
            cache.push(BIGB, prefix='q')
            before = sorted((repr(k), repr(cache.get(k))) for k in cache)
            ctrl = fault.FailAt(n) if n is not None else None
            raised = None
            with cache.transact():
                cache.set('marker', 1)
                probe.set_controller(ctrl)
                try:
                    fn(cache)
                except Exception as exc:      # noqa: BLE001 - the block handles the failure
                    raised = type(exc).__name__
                finally:
                    probe.set_controller(None)
                cache.set('marker', 2)
            if raised is None:
                res.count('nested_failpoints_not_reached' if n is not None else 'nested_refusals_not_raised')
                continue
            res.count('evaluations')
            res.count('nested_failures_handled_and_committed')
            wit = {'case': how, 'operation': name, 'raised': raised, 'failed_at': ctrl.fired if ctrl else 'row statement'}
            after = sorted((repr(k), repr(cache.get(k))) for k in cache if k != 'marker')
            if cache.get('marker') != 2:
                res.violation('%s (%s) inside a block: the block\'s own writes did not commit' % (name, how), wit)
                continue
            if n is None and after != before:
                res.violation('%s refused inside a block that then committed changed the cache: %r -> %r' % (
                    name, [b for b in before if b not in after][:2], [a for a in after if a not in before][:2]), wit)
                continue
            missing = [k for k, v in after if v == 'None' and (k, v) not in before]
            if missing:
                res.violation('%s (%s) inside a block that then committed: %r lost their values' % (name, how, missing), wit)
                continue
            problems = quiescent_problems(dc, cache, d, obs)
            if problems:
                res.violation('%s (%s) inside a block that then committed: %s' % (name, how, problems[:3]), wit)
        finally:
            probe.set_controller(None)
            obs.close()
            cache.close()
            sc.drop(d)


def later_ops_work(cache):
    cache.set('later', BIGS)
    assert cache.get('later') == BIGS
    cache.set('later', 1)
    assert cache.incr('later') == 2
    assert cache.pop('later') == 2
    k = cache.push(BIGB, prefix='later')
    assert cache.pull(prefix='later') == (k, BIGB)


def failpoint_enumeration(dc, sc, res, shard, nshards, tier):
    table = op_table()
    for idx, (name, setup, action) in enumerate(table):
        if idx % nshards != shard:
            continue
        for settings in ({'statistics': True, 'eviction_policy': 'least-recently-used'},
                         {'statistics': False, 'eviction_policy': 'least-recently-stored', 'cull_limit': 0}):
            settings = dict(settings, disk_min_file_size=T)
            # dry run
            d = sc.new()
            cache = dc.Cache(d, **settings)
            setup(cache)
            probe.watch(d)
            ctrl = fault.FailAt(None)
            probe.set_controller(ctrl)
            try:
                action(cache)
            except fault.Injected:
                pass
            probe.set_controller(None)
            labels = list(ctrl.labels)
            cache.close()
            sc.drop(d)
            cases = [(i + 1, False) for i in range(len(labels) + 1)]
            cases += [(i + 1, True) for i, lab in enumerate(labels) if lab in ('pre:fcreate', 'pre:mkdir')]
            done_all = True
            for n, persistent in cases:
                d = sc.new()
                cache = dc.Cache(d, **settings)
                obs = observe.Observer(d)
                try:
                    setup(cache)
                    probe.watch(d)
                    ctrl = fault.FailAt(n, persistent)
                    probe.set_controller(ctrl)
                    outcome = 'ok'
                    try:
                        action(cache)
                    except fault.Injected:
                        outcome = 'block-aborted'
                    except (sqlite3.OperationalError, OSError, KeyError, IndexError) as exc:
                        outcome = type(exc).__name__
                    except Exception as exc:      # noqa: BLE001
                        outcome = 'other:' + type(exc).__name__
                    probe.set_controller(None)
                    lab = ctrl.fired or 'not-reached'      # gate counts vary with the random file name
                    if ctrl.fired is None:
                        res.count('failpoints_not_reached')
                    res.count('failpoints_injected')
                    res.count('evaluations')
                    res.seen('failpoints', (name, lab, n, persistent, settings['statistics']))
                    file_written = any(x in ('pre:fclose',) for x in labels[:n - 1])
                    if file_written and outcome != 'ok':
                        res.count('failures_after_file_written')
                    wit = {'operation': name, 'settings': settings, 'failpoint': lab, 'n': n, 'persistent': persistent,
                           'gates': labels, 'outcome': outcome}
                    problems = quiescent_problems(dc, cache, d, obs)
                    if problems:
                        res.violation('after a failure injected into "%s" at %s: %s' % (name, lab, problems[:3]), wit)
                        done_all = False
                        continue
                    try:
                        later_ops_work(cache)
                    except Exception as exc:      # noqa: BLE001
                        res.violation('operations after an injected failure in "%s" at %s do not work: %s: %s' % (
                            name, lab, type(exc).__name__, exc), wit)
                        continue
                    problems = quiescent_problems(dc, cache, d, obs)
                    if problems:
                        res.violation('after follow-up operations (failure in "%s" at %s): %s' % (name, lab, problems[:3]), wit)
                    if len(res.samples) < 2 and outcome != 'ok':
                        res.sample(wit)
                finally:
                    probe.set_controller(None)
                    obs.close()
                    cache.close()
                    sc.drop(d)
            if done_all:
                res.count('ops_with_all_gates_enumerated')


def unencodable(dc, sc, res, shard, nshards):
    for idx, (name, action) in enumerate(unencodable_cases()):
        if idx % nshards != shard % nshards and nshards <= 16 and (idx + 5) % nshards != shard:
            continue
        d = sc.new()
        cache = dc.Cache(d, disk_min_file_size=T)
        obs = observe.Observer(d)
        try:
            cache.set('f', BIGS)
            cache.push('h', prefix='q')
            try:
                action(cache)
                outcome = 'accepted'
            except Exception as exc:      # noqa: BLE001
                outcome = type(exc).__name__
            res.count('unencodable_values')
            res.count('evaluations')
            res.seen('unencodable_cases', (name, outcome))
            problems = quiescent_problems(dc, cache, d, obs)
            wit = {'case': name, 'outcome': outcome}
            if problems:
                res.violation('after the failed write "%s" (%s): %s' % (name, outcome, problems[:3]), wit)
                continue
            try:
                later_ops_work(cache)
            except Exception as exc:      # noqa: BLE001
                res.violation('operations after the failed write "%s" do not work: %s' % (name, exc), wit)
        finally:
            obs.close()
            cache.close()
            sc.drop(d)


def lock_timeouts(dc, sc, res, rng):
    d = sc.new()
    cache = dc.Cache(d, timeout=0, disk_min_file_size=T)
    obs = observe.Observer(d)
    cache.set('f', BIGS)
    holder = sqlite3.connect(d + '/cache.db', isolation_level=None, timeout=0)
    try:
        holder.execute('BEGIN IMMEDIATE')
        for name, fn in [('set', lambda: cache.set('g', BIGB)), ('set replace', lambda: cache.set('f', BIGB)),
                         ('add', lambda: cache.add('g', BIGS)), ('push', lambda: cache.push(BIGP)),
                         ('pop', lambda: cache.pop('f')), ('clear', lambda: cache.clear()),
                         ('set stream', lambda: cache.set('g', io.BytesIO(BIGB), read=True))]:
            try:
                fn()
                out = 'returned'
            except dc.Timeout:
                out = 'Timeout'
            res.count('lock_timeouts')
            res.count('evaluations')
            problems = observe.invariant(d, obs)
            if problems or out != 'Timeout':
                res.violation('after %s under a held lock (%s): %s' % (name, out, problems[:3]), {'op': name})
        holder.execute('ROLLBACK')
        problems = quiescent_problems(dc, cache, d, obs)
        if problems:
            res.violation('after lock timeouts: %s' % problems[:3], {})
    finally:
        holder.close()
        obs.close()
        cache.close()
        sc.drop(d)


def concurrent_program(dc, sc, res, rng, label):
    """C05-style program under the fuzzer; only the invariant is judged here."""
    nclients = rng.randrange(2, 4)
    keys, init, prog = c05.gen_program(rng, nclients)
    d = sc.new()
    clock = probe.set_clock(probe.VClock())
    setup = dc.Cache(d, timeout=0, disk_min_file_size=T)
    for k, v in init.items():
        setup.set(k, v)
    shared = rng.random() < 0.5
    removals_beside_blocks = rng.random() < 0.25
    if removals_beside_blocks:
        # one thread takes file-backed items out (pop, delete, replace by an inline value) with plain calls while
        # another thread of the same object opens blocks and abandons them: where a removed value's file goes must not
        # depend on somebody else's transaction
        shared = True
        nclients = 2
        keys = ['r0', 'r1', 'r2', 'r3']
        for k in keys:
            init[k] = c05.stamp(9, len(init), True)
            setup.set(k, init[k])
        prog = [[(rng.choice(['pop', 'pop', 'delete']), (k,) + (('MISS',) if True else ()), {}) for k in keys[:3]],
                [('set', ('b%d' % i, c05.stamp(1, i, True)), {}) for i in range(3)]]
        prog[0] = [(op, (a[0], 'MISS') if op == 'pop' else (a[0],), kw) for op, a, kw in prog[0]]
        res.count('programs_with_removals_beside_abandoned_blocks')
    # clients with their own handle open it inside the schedule half of the time, and some re-open it between two
    # calls, while the others are writing: opening a handle must not disturb the counters
    late = (not shared) and rng.random() < 0.6
    caches = [setup if shared else None if late else dc.Cache(d, timeout=0) for _ in range(nclients)]
    reopen_at = [rng.randrange(0, len(prog[ci]) + 1) if late and rng.random() < 0.5 else -1 for ci in range(nclients)]
    opened = []
    sch = Sched(rng, clock, strategy=rng.choice(['random', 'preempt', 'ops']), preempt_points={rng.randrange(0, 100)})
    if store_gates(sch, rng, dc):
        res.count('schedules_with_attribute_store_gates')
    rec = Recorder(sch)
    # in half of the programs one or two statements / file operations of some client fail while the others go on
    # (never BEGIN, COMMIT or ROLLBACK, see DESIGN 7.18)
    budget = [rng.randrange(1, 3) if rng.random() < 0.5 else 0]
    fail_at = {rng.randrange(5, 120) for _ in range(3)}

    def fault_hook(client, gate_label):
        # the fault model of the single-threaded tier: a data statement or a file operation fails
        if budget[0] > 0 and sch.steps in fail_at and client.in_op and gate_label in fault.SQL_FAIL + fault.FILE_FAIL:
            budget[0] -= 1
            res.count('failures_injected_into_concurrent_programs')
            if gate_label in fault.SQL_FAIL:
                return sqlite3.OperationalError('disk I/O error (injected at %s)' % gate_label)
            return OSError(errno.ENOSPC if gate_label != 'pre:fopen' else errno.EIO, 'injected at %s' % gate_label)
        return None
    sch.fault_hook = fault_hook

    def client(ci):
        def run():
            if caches[ci] is None:
                caches[ci] = dc.Cache(d, timeout=0)
                opened.append(caches[ci])
            for j, (op, args, kw) in enumerate(prog[ci]):
                if j == reopen_at[ci]:
                    caches[ci] = dc.Cache(d, timeout=0)
                    opened.append(caches[ci])
                if (removals_beside_blocks and ci == 1) or (not removals_beside_blocks and rng.random() < 0.25):
                    def blk():
                        try:
                            with caches[ci].transact(retry=True):
                                c05.do_op(caches[ci], op, args, kw)
                                if op in ('set', 'add', 'pop', 'delete'):
                                    raise fault.Injected()
                        except fault.Injected:
                            pass
                    rec.call(ci, 'block', (), blk)
                else:
                    rec.call(ci, op, args, lambda: c05.do_op(caches[ci], op, args, kw), kw)
        return run
    try:
        ok = sch.run([client(i) for i in range(nclients)])
        probe.set_controller(None)
        if not ok:
            res.count('schedules_hit_step_cap')
            return
        res.count('concurrent_programs')
        res.count('handles_opened_during_concurrent_programs', len(opened))
        res.count('evaluations')
        res.seen('concurrent_schedules', sch.trace_hash())
        obs = observe.Observer(d)
        probe.set_clock(None)
        problems = quiescent_problems(dc, setup, d, obs)
        obs.close()
        if problems:
            res.violation('after a concurrent program joined: %s' % problems[:3],
                          {'label': label, 'program': prog, 'init': init, 'shared_object': shared,
                           'trace_hash': sch.trace_hash()})
    finally:
        probe.set_controller(None)
        for c in (set(caches) | {setup} | set(opened)) - {None}:
            try:
                c.close()
            except Exception:      # noqa: BLE001
                pass
        sc.drop(d)


def run_shard(tier, seed, shard, nshards, res):
    dc = common.use_repo()
    probe.install()
    with common.Scratch() as sc:
        failpoint_enumeration(dc, sc, res, shard, nshards, tier)
        unencodable(dc, sc, res, shard, nshards)
        expired_file_rows(dc, sc, res, shard, nshards)
        nested_failures_handled(dc, sc, res, shard, nshards)
        mixed_culls(dc, sc, res, shard, nshards)
        rng = common.rng_for(seed, 'c08', shard)
        lock_timeouts(dc, sc, res, rng)
        probe.reset()
        for i in range(2 if tier == 'quick' else 10):
            c05.commit_contention(dc, sc, res, common.rng_for(seed, 'c08c', shard, i), 'c08 commit contention shard=%d i=%d' % (shard, i))
        probe.install()
        # (i) histories with the invariant after each call + check() at the end
        cfgs = c03.configs()
        for i in range(2 if tier == 'quick' else 20):
            rng = common.rng_for(seed, 'c08h', shard, i)
            cfg = gen.pick(rng, cfgs)
            steps = list(c03.random_history(rng, cfg, rng.randrange(150, 400), wide=(i % 2 == 0)))
            d = sc.new()
            clock = probe.set_clock(probe.VClock())
            drv = CacheDriver(dc, d, cfg, clock=clock)
            try:
                for op, args, kw in steps:
                    if op == 'ADV':
                        clock.advance(args[0])
                        continue
                    if op == 'FREEZE':
                        clock.frozen = args[0]
                        if not args[0]:
                            clock.advance(gen.TICK)
                        continue
                    drv.step(op, *args, **kw)
                    res.count('history_calls')
                    res.count('evaluations')
                w = observe.check_warnings(drv.real)
                if w:
                    res.violation('check() after a random history: %r' % w[:3], drv.witness())
            except Ambiguous:
                pass
            except Mismatch as m:
                if 'invariant' in m.what:
                    res.violation(m.what, m.witness)
            finally:
                drv.close()
                sc.drop(d)
        # sizes well beyond the threshold: replace / shrink / grow / remove, invariant after every call
        for i in range(2 if tier == 'quick' else 20):
            rng = common.rng_for(seed, 'c08big', shard, i)
            d = sc.new()
            cache = dc.Cache(d, disk_min_file_size=T, eviction_policy=gen.pick(rng, ['least-recently-used', 'none']))
            obs = observe.Observer(d)
            try:
                for step in range(120):
                    k = 'k%d' % rng.randrange(8)
                    r = rng.random()
                    v = gen.pick(rng, ['s' * rng.randrange(0, 6000), b'b' * rng.randrange(0, 6000), [rng.randrange(9)] * rng.randrange(0, 900), 7])
                    if r < 0.6:
                        cache.set(k, v)
                    elif r < 0.7:
                        cache.add(k, v)
                    elif r < 0.8:
                        cache.pop(k)
                    elif r < 0.9:
                        cache.delete(k)
                    else:
                        cache.push(v, prefix='q') if rng.random() < 0.5 else cache.pull(prefix='q')
                    res.count('history_calls')
                    res.count('evaluations')
                    problems = observe.invariant(d, obs)
                    if problems:
                        res.violation('after %d calls with large values: %r' % (step + 1, problems[:3]), {'seed': seed, 'shard': shard, 'i': i})
                        break
                else:
                    problems = quiescent_problems(dc, cache, d, obs)
                    if problems:
                        res.violation('after a large-value history: %r' % problems[:3], {'seed': seed, 'shard': shard, 'i': i})
            finally:
                obs.close()
                cache.close()
                sc.drop(d)
        probe.reset()
        for i in range(15 if tier == 'quick' else 200):
            rng = common.rng_for(seed, 'c08c', shard, i)
            concurrent_program(dc, sc, res, rng, 'c08 concurrent seed=%d shard=%d i=%d' % (seed, shard, i))
            if res.new_violations() > 10:
                return
