"""C07 - a process killed at any instant leaves a usable, self-consistent cache."""

import json
import os
import subprocess
import sys
import warnings

from .. import common, crash, observe, probe

PROP = 'C07'
LEVEL = 'fault_enumeration'
RULE = ('tier 1: for each program (3-8 operations covering every mutating method of Cache, Deque and Index, inline and '
        'file-backed stamped values, transaction blocks) a forked child runs it with the probe on and SIGKILLs itself '
        'at gate k, for EVERY gate k of the program (before/after each SQL statement, each file create / chunk / close '
        '/ unlink, each mkdir/rmdir); the parent then opens the directory and requires: contents equal the state '
        'before or after the interrupted operation (bulk removals and documented multi-step methods: any state '
        'observed after one of their commits in a dry run), every key yields its complete value, check() reports only '
        'unknown files / empty directories, integrity ok, a write succeeds, check(fix=True) then check() is clean. '
        'The directory\'s SQLite journal mode is WAL for about half of the programs and delete / truncate / persist for the rest. '
        'tier 1b: the same at every gate of opening (creating or re-opening) a Cache / Deque / Index / FanoutCache '
        'directory that was absent, empty or populated, followed by one file-backed write. tier 2: strace injects SIGKILL at the n-th file-mutating syscall inside SQLite. tier 3: SIGKILL from outside at '
        'random instants into a 2-thread child. evaluations = kill runs judged; distinct_nontrivial = distinct '
        '(program, kill gate) pairs + distinct (syscall, n) kills'
        " One fixed program makes calls fail with SQLite having rolled the transaction back itself (as for SQLITE_IOERR/NOMEM/INTERRUPT; the library's own ROLLBACK then fails) and is killed at every gate of the blocks that follow.")
DISTINCT = ('kill_points', 'syscall_kills', 'random_kills')
REQUIRED = ('calls_failed_with_sqlite_having_rolled_back', 'kills_inside_blocks_after_a_sqlite_side_rollback', 'kills_beside_a_waiting_writer', 'gate_kills_judged', 'kills_during_open', 'kills_during_first_write', 'programs_wal', 'programs_rollback_journal', 'blocked_commit_runs_with_failed_commit', 'size_evictions_seen_in_dry_runs', 'programs_fully_enumerated', 'kills_inside_block', 'kills_at_file_ops',
            'kills_at_sql_gates', 'debris_seen_unknown_files_or_dirs', 'syscall_kills_judged', 'random_kills_judged')
ASSUMPTIONS = ('SIGKILL is process death, not power loss (page cache survives); durability against power failure is not '
               'examined', 'sequential semantics of each operation are taken from a dry run of the same program '
               '(validated by C03/C11/C12)')

T = 64
SETTINGS = {'disk_min_file_size': T, 'eviction_policy': 'none'}


def plan(tier):
    return {'nshards': 16 if tier == 'quick' else 64, 'timeout': 1200 if tier == 'quick' else 7200}


def S(tag, big=False):
    return {'stamp': tag, 'big': big}


def B(tag, big=False):
    return {'bytes': tag, 'big': big}


def L(tag, big=False):
    return {'list': tag, 'big': big}


# (kind, maxlen, setup program, program)
def programs():
    P = []
    P.append(('cache', None, [('set', 'a', S('a0', True)), ('set', 'b', S('b0')), ('set', 'n', 5)],
              [('set', 'a', S('a1', True)), ('set', 'b', S('b1', True)), ('set', 'a', S('a2')), ('add', 'c', B('c1', True)),
               ('add', 'a', S('no', True)), ('incr', 'n', 3), ('touch', 'a', 500), ('pop', 'b'), ('delete', 'c')]))
    P.append(('cache', None, [('set', 'a', L('a0', True)), ('push', S('q0', True), 'q', 'back'), ('push', S('q1'), 'q', 'back')],
              [('push', S('q2', True), 'q', 'back'), ('push', B('q3', True), 'q', 'front'), ('pull', 'q', 'front'),
               ('pull', 'q', 'back'), ('push', L('p0', True), None, 'back'), ('pull', None, 'front'), ('pop', 'a')]))
    P.append(('cache', None, [('set', 'k%d' % i, S('v%d' % i, i % 3 == 0), {'tag': 't' if i % 2 else None,
                                                                           'expire': 1000 if i % 5 == 0 else None})
                              for i in range(130)],
              [('evict', 't'), ('expire',), ('clear',)]))
    P.append(('cache', None, [('set', 'a', S('a0', True)), ('set', 'b', B('b0', True)), ('set', 'c', S('c0'))],
              [('block', [('set', 'a', S('a1', True)), ('delete', 'b'), ('set', 'd', L('d1', True))]),
               ('block', [('pop', 'a'), ('pop', 'd'), ('set', 'c', S('c2', True)), ('incr', 'n', 1)]),
               ('block', [('push', S('q1', True), 'q', 'back'), ('pull', 'q', 'front'), ('set', 'e', S('e1', True))])]))
    P.append(('cache', None, [('set', 'a', S('a0', True))], [('reopen',), ('set', 'a', S('a1', True)), ('reopen',),
                                                            ('cull',), ('delete', 'a')]))
    P.append(('deque', 3, [('append', S('d0', True)), ('append', S('d1')), ('append', B('d2', True))],
              [('append', S('d3', True)), ('appendleft', S('d4', True)), ('pop',), ('popleft',), ('setitem', 0, S('d5', True)),
               ('append', S('d6', True)), ('delitem', -1)]))
    P.append(('deque', None, [('append', S('d0', True)), ('append', S('d1')), ('append', B('d2', True)), ('append', 4)],
              [('rotate', 1), ('rotate', -2), ('extend', [7, 8]), ('reverse',), ('remove', 4), ('clear',)]))
    P.append(('index', None, [('setitem', 'a', S('a0', True)), ('setitem', 'b', S('b0')), ('setitem', 'c', B('c0', True))],
              [('popitem', True), ('setitem', 'a', S('a1', True)), ('popitem', False), ('setdefault', 'd', S('d1', True)),
               ('setdefault', 'd', S('no', True)), ('pop', 'b'), ('update', {'x': 1, 'y': 2}), ('delitem', 'd'),
               ('push', S('q0', True), 'q'), ('pull', 'q'), ('clear',)]))
    P.append(('index', None, [('setitem', 'a', S('a0', True)), ('setitem', 'b', L('b0', True))],
              [('block', [('setitem', 'a', S('a1', True)), ('popitem', True), ('setitem', 'c', S('c1', True))]),
               ('block', [('delitem', 'a'), ('setitem', 'a', S('a2', True)), ('pop', 'c')])]))
    # expired file-backed rows removed by the lazy cull of later writes, by add/incr over them, and by peeks
    P.append(('cache', None,
              [('reset', 'cull_limit', 0)] + [('set', 'x%d' % i, S('x%d' % i, True), {'expire': -1}) for i in range(4)] +
              [('push', S('qx', True), 'q', 'back'), ('set', 'live', S('l0', True)), ('reset', 'cull_limit', 2)],
              [('add', 'x0', S('x0b', True)), ('incr', 'x1', 5), ('set', 'n1', S('n1', True)), ('set', 'n2', B('n2', True)),
               ('reset', 'cull_limit', 0), ('set', 'y', S('y0', True), {'expire': -1}), ('push', S('qy', True), 'q', 'front'),
               ('touch', 'y', -5), ('peekitem', True), ('peek', 'q', 'front'), ('get', 'live')]))
    # size-based eviction of file-backed rows inside the writing transaction
    P.append(('cache', None,
              [('reset', 'eviction_policy', 'least-recently-stored'), ('reset', 'cull_limit', 3)] +
              [('set', 'e%d' % i, S('e%d' % i, True)) for i in range(6)],
              # (the child's handle is opened with policy 'none' like every C07 handle: the program switches it itself)
              [('reset', 'eviction_policy', 'least-recently-stored'), ('reset', 'cull_limit', 3), ('reset', 'size_limit', 1),
               ('set', 'f1', S('f1', True)), ('add', 'f2', L('f2', True)), ('push', S('f3', True), None, 'back'),
               ('incr', 'cnt', 1), ('block', [('set', 'f4', S('f4', True)), ('set', 'f5', S('f5'))]), ('cull',)]))
    # bulk removals of file-backed items INSIDE a block: nothing of them may happen before the block's own COMMIT
    P.append(('cache', None,
              [('set', 't%d' % i, S('t%d' % i, True), {'tag': 't'}) for i in range(5)] + [('set', 'u0', S('u0', True)), ('set', 'u1', S('u1'))],
              [('block', [('evict', 't'), ('set', 'x', S('x', True))]), ('block', [('set', 'y', S('y')), ('expire',)]),
               ('block', [('clear',), ('set', 'z', S('z', True))])]))
    P.append(('deque', None, [('append', S('d%d' % i, i % 2 == 0)) for i in range(4)],
              [('block', [('clear',), ('append', S('n0', True))]), ('block', [('appendleft', S('n1', True)), ('clear',)])]))
    P.append(('index', None, [('setitem', 'i%d' % i, S('i%d' % i, i % 2 == 0)) for i in range(4)],
              [('block', [('clear',), ('setitem', 'n', S('n', True))])]))
    P.append(('deque', 5, [('append', S('d%d' % i, i % 2 == 0)) for i in range(5)],
              [('maxlen', 2), ('remove', crash.payload('d4', True)), ('maxlen', 4), ('extendleft', [1, 2, 3])]))
    P.append(('deque', 2, [('append', S('d0', True)), ('append', S('d1', True))],
              [('block', [('append', S('d2', True)), ('appendleft', S('d3', True)), ('pop',)]),
               ('append', S('d4', True)), ('appendleft', B('d5', True))]))
    # a call fails with an error on which SQLite has rolled the transaction back by itself (the library's own ROLLBACK
    # then fails too); the same handle goes on and is killed inside later blocks: they must still be all-or-nothing
    P.append(('cache', None, [('set', 'a', S('a0', True)), ('set', 'b', S('b0'))],
              [('io_error', ('set', 'z', S('z0'))), ('block', [('set', 'a', S('a1', True)), ('set', 'c', S('c1', True)), ('delete', 'b')]),
               ('io_error', ('incr', 'n', 1)), ('block', [('set', 'd', S('d1')), ('pop', 'a')]), ('set', 'e', S('e1', True))]))
    return P


def random_program(rng):
    kind = rng.choice(['cache', 'cache', 'deque', 'index'])
    n = [0]

    def val():
        n[0] += 1
        return rng.choice([S, B, L])('r%d' % n[0], rng.random() < 0.6)
    keys = ['a', 'b', 'c']
    setup, prog = [], []
    maxlen = None
    if kind == 'cache':
        for k in keys:
            if rng.random() < 0.7:
                setup.append(('set', k, val()))

        def one():
            r = rng.choice(['set', 'set', 'add', 'incr', 'touch', 'pop', 'delete', 'push', 'pull', 'clear', 'block'])
            k = rng.choice(keys)
            if r == 'set':
                return ('set', k, val())
            if r == 'add':
                return ('add', k, val())
            if r == 'incr':
                return ('incr', 'n', 2)
            if r == 'touch':
                return ('touch', k, 900)
            if r in ('pop', 'delete'):
                return (r, k)
            if r == 'push':
                return ('push', val(), rng.choice([None, 'q']), rng.choice(['back', 'front']))
            if r == 'pull':
                return ('pull', rng.choice([None, 'q']), rng.choice(['back', 'front']))
            if r == 'clear':
                return ('clear',)
            return ('block', [x for x in (one() for _ in range(rng.randrange(2, 4))) if x[0] != 'block'])
    elif kind == 'deque':
        maxlen = rng.choice([None, 2, 3])
        for _ in range(rng.randrange(0, 4)):
            setup.append(('append', val()))

        def one():
            r = rng.choice(['append', 'append', 'appendleft', 'pop', 'popleft', 'rotate', 'setitem', 'block', 'extend'])
            if r in ('append', 'appendleft'):
                return (r, val())
            if r in ('pop', 'popleft'):
                return (r,)
            if r == 'rotate':
                return ('rotate', rng.choice([1, -1, 2]))
            if r == 'setitem':
                return ('setitem', 0, val())
            if r == 'extend':
                return ('extend', [n[0], 'e'])
            return ('block', [x for x in (one() for _ in range(rng.randrange(2, 4))) if x[0] not in ('block', 'rotate', 'extend')])
    else:
        for k in keys:
            if rng.random() < 0.7:
                setup.append(('setitem', k, val()))

        def one():
            r = rng.choice(['setitem', 'setitem', 'delitem', 'pop', 'popitem', 'setdefault', 'update', 'block'])
            k = rng.choice(keys)
            if r == 'setitem':
                return ('setitem', k, val())
            if r in ('delitem', 'pop'):
                return (r, k)
            if r == 'popitem':
                return ('popitem', rng.random() < 0.5)
            if r == 'setdefault':
                return ('setdefault', k, val())
            if r == 'update':
                return ('update', {'u1': n[0], 'u2': 'x'})
            return ('block', [x for x in (one() for _ in range(rng.randrange(2, 4))) if x[0] not in ('block', 'update')])
    for _ in range(rng.randrange(3, 7)):
        prog.append(one())
    return (kind, maxlen, setup, prog)


JOURNALS = ['delete', 'truncate', 'persist']


def build_initial(dc, path, kind, maxlen, setup, journal='wal'):
    # the journal mode is stored in the directory: later handles (the child's, the judge's) inherit it
    cache = dc.Cache(path, **dict(SETTINGS, **common.journal_kw(journal)))
    if kind == 'deque':
        obj = dc.Deque.fromcache(cache, maxlen=maxlen)
    elif kind == 'index':
        obj = dc.Index.fromcache(cache)
    else:
        obj = cache
    for op in setup:
        try:
            crash.apply_op(dc, obj, cache, kind, op, maxlen)
        except (KeyError, IndexError, ValueError):
            pass
    cache.close()


def judge(dc, res, d, kind, maxlen, acceptable, label, wit):
    """Everything a later process is promised."""
    try:
        with warnings.catch_warnings():
            warnings.simplefilter('ignore')
            got = crash.contents(dc, d, kind)
    except Exception as exc:       # noqa: BLE001
        res.violation('after the kill the contents cannot be read: %s: %s' % (type(exc).__name__, exc), wit)
        return False
    if not any(got == acc for acc in acceptable):
        res.violation('after the kill the contents are neither the state before nor after the interrupted operation',
                      dict(wit, got=got[:12], acceptable=[a[:12] for a in acceptable[:3]]))
        return False
    # (cull_limit 0: the write below must not evict or cull anything by itself - some programs leave a tiny size limit)
    cache = dc.Cache(d, timeout=5, cull_limit=0)
    try:
        warns = cache.check()
        bad = [str(w.message) for w in warns
               if not issubclass(w.category, (dc.UnknownFileWarning, dc.EmptyDirWarning))]
        if bad:
            res.violation('check() after the kill reports more than debris: %r' % bad[:3], wit)
            return False
        if warns:
            res.count('debris_seen_unknown_files_or_dirs')
        try:
            cache.set('post-crash-write', 1)
            cache.delete('post-crash-write')
        except Exception as exc:    # noqa: BLE001
            res.violation('a write after the kill failed: %s' % type(exc).__name__, wit)
            return False
        cache.check(fix=True)
        again = cache.check()
        if again:
            res.violation('check() after check(fix=True) still reports: %r' % [str(w.message) for w in again][:3], wit)
            return False
        with warnings.catch_warnings():
            warnings.simplefilter('ignore')
            after_fix = crash.contents(dc, d, kind)
        def live_only(c):
            # expired rows may legitimately be culled by the write above
            return [x for x in c if not (isinstance(x, (tuple, list)) and len(x) == 2 and str(x[1]).startswith("(('<MISSING>'"))]
        if live_only(after_fix) != live_only(got):
            res.violation('repair changed the contents', dict(wit, before=got[:10], after=after_fix[:10]))
            return False
        problems = observe.invariant(d)
        if problems:
            res.violation('structural invariant broken after repair: %r' % problems[:3], wit)
            return False
    finally:
        cache.close()
    return True


def enumerate_program(dc, sc, res, prog_id, spec, label, stride=1, offset=0, journal='wal'):
    kind, maxlen, setup, program = spec
    init = sc.new('init')
    build_initial(dc, init, kind, maxlen, setup, journal)
    s_init = crash.contents(dc, init, kind)
    # dry run: gates, states after each op, commit states inside each op
    dry = sc.new('dry')
    crash.copy_dir(init, dry)
    log = dry + '.log'
    how, status, recs = crash.run_forked(dc, dry, kind, SETTINGS, program, None, log, maxlen)
    sc.drop(dry)
    if os.path.exists(log):
        os.unlink(log)
    fin = [r for r in recs if r.get('finished')]
    if how != 'exited' or not fin:
        res.inconclusive.append('dry run of %s did not finish (%s)' % (label, how))
        sc.drop(init)
        return
    G = fin[0]['gates']
    labels = fin[0]['labels']
    states = {-1: s_init}
    commits = {}
    cur = None
    start_gate = {}
    for r in recs:
        if 'start' in r:
            cur = r['start']
            start_gate[cur] = r['gate']
            commits[cur] = []
        elif 'commit_state' in r and cur is not None:
            commits[cur].append([tuple(x) if isinstance(x, list) else x for x in r['commit_state']])
        elif 'done' in r:
            states[r['done']] = [tuple(x) if isinstance(x, list) else x for x in r['state']]
            if program[r['done']][0] == 'io_error':
                if r.get('err') == 'OperationalError':
                    res.count('calls_failed_with_sqlite_having_rolled_back')
                else:
                    res.inconclusive.append('%s: the injected SQLite-side rollback did not fail call %d (%r)' % (
                        label, r['done'], r.get('err')))
    # the situations a program is about must really occur in its dry run (a size-eviction program that never evicts
    # proves nothing): count them, the counters are required
    if kind == 'cache' and any(op[0] == 'reset' and op[1] == 'size_limit' for op in program):
        first = {k for k, _ in s_init}
        last = {k for k, _ in states[max(states)]}
        removed_by_program = {repr(op[1]) for op in program if op[0] in ('pop', 'delete') and len(op) > 1}
        if (first - last) - removed_by_program:
            res.count('size_evictions_seen_in_dry_runs', len((first - last) - removed_by_program))
    all_done = True
    for k in range(1 + offset, G + 1, stride):
        d = sc.new('k')
        crash.copy_dir(init, d)
        log = d + '.log'
        how, status, recs = crash.run_forked(dc, d, kind, SETTINGS, program, k, log, maxlen)
        if os.path.exists(log):
            os.unlink(log)
        if how == 'exited' and any(r.get('finished') for r in recs):
            # value files get random names, so the number of mkdir gates varies slightly between runs of one
            # program: this run had fewer gates than the dry run and simply finished
            res.count('kill_points_beyond_end_of_run')
            sc.drop(d)
            continue
        if how != 'killed':
            res.inconclusive.append('%s: child at gate %d ended as %s' % (label, k, how))
            sc.drop(d)
            all_done = False
            continue
        started = [r['start'] for r in recs if 'start' in r]
        done = [r['done'] for r in recs if 'done' in r]
        j = started[-1] if started else 0
        if j in done:
            j += 1
        op = program[j] if j < len(program) else ('<after-last>',)
        acceptable = [states[j - 1], states.get(j, states[j - 1])]
        if op[0] in crash.NON_ATOMIC[kind]:
            acceptable.extend(commits.get(j, []))
        gate_label = labels[k - 1] if k - 1 < len(labels) else '?'
        wit = {'label': label, 'kind': kind, 'maxlen': maxlen, 'setup': setup, 'program': program, 'kill_gate': k,
               'gate_label': gate_label, 'interrupted_op_index': j, 'interrupted_op': op}
        judge(dc, res, d, kind, maxlen, acceptable, label, wit)
        res.count('evaluations')
        res.count('gate_kills_judged')
        if op[0] == 'block' and any(o[0] == 'io_error' for o in program[:j]):
            res.count('kills_inside_blocks_after_a_sqlite_side_rollback')
        res.seen('kill_points', (prog_id, k))
        if op[0] == 'block':
            res.count('kills_inside_block')
        if gate_label.split(':')[-1] in ('fcreate', 'fwrite', 'fclose', 'unlink', 'rmdir', 'mkdir', 'fopen'):
            res.count('kills_at_file_ops')
        else:
            res.count('kills_at_sql_gates')
        sc.drop(d)
        if res.new_violations() > 12:
            all_done = False
            break
    if all_done and stride == 1:
        res.count('programs_fully_enumerated')
    if len(res.samples) < 2:
        res.sample({'label': label, 'kind': kind, 'program': program, 'gates': G, 'gate_labels_head': labels[:30]})
    sc.drop(init)



# ------------------------------------------- tier 1b: kills while a directory is being opened
OPEN_KINDS = ('cache', 'deque', 'index', 'fanout')


def open_object(dc, d, kind):
    if kind == 'fanout':
        return dc.FanoutCache(d, shards=2, disk_min_file_size=T)
    if kind == 'deque':
        return dc.Deque(directory=d)
    if kind == 'index':
        return dc.Index(d)
    return dc.Cache(d, **SETTINGS)


def first_write(obj, kind):
    big = 'first-write;' * 4000
    if kind == 'deque':
        obj.append(big)
    else:
        obj['first'] = big


def open_child(dc, d, kind, kill_at, logpath):
    code = 0
    try:
        fd = os.open(logpath, os.O_WRONLY | os.O_CREAT | os.O_APPEND, 0o644)
        probe.watch(d)
        ctrl = crash.KillAt(kill_at)
        probe.set_controller(ctrl)
        obj = open_object(dc, d, kind)
        os.write(fd, (json.dumps({'opened': ctrl.n}) + '\n').encode())
        first_write(obj, kind)
        probe.set_controller(None)
        os.write(fd, (json.dumps({'finished': True, 'gates': ctrl.n,
                                  'labels': ctrl.labels if kill_at is None else None}) + '\n').encode())
    except BaseException:      # noqa: BLE001
        import traceback
        try:
            os.write(2, traceback.format_exc().encode())
        except OSError:
            pass
        code = 3
    os._exit(code)


def fanout_contents(dc, d):
    fc = dc.FanoutCache(d, shards=2, disk_min_file_size=T)
    try:
        return sorted(('%r' % (k,), '%r' % (fc.get(k, '<MISSING>'),)) for k in fc)
    finally:
        fc.close()


def judge_fanout(dc, res, d, acceptable, wit):
    try:
        with warnings.catch_warnings():
            warnings.simplefilter('ignore')
            got = fanout_contents(dc, d)
    except Exception as exc:       # noqa: BLE001
        res.violation('after the kill the contents cannot be read: %s: %s' % (type(exc).__name__, exc), wit)
        return
    if got not in acceptable:
        res.violation('after the kill the contents are neither the state before nor after the interrupted operation',
                      dict(wit, got=got[:6]))
        return
    fc = dc.FanoutCache(d, shards=2, disk_min_file_size=T, timeout=5)
    try:
        if len(fc) != len(list(fc)):
            res.violation('after the kill len() is %d but %d keys are present' % (len(fc), len(list(fc))), wit)
            return
        bad = [str(w.message) for w in fc.check()
               if not issubclass(w.category, (dc.UnknownFileWarning, dc.EmptyDirWarning))]
        if bad:
            res.violation('check() after the kill reports more than debris: %r' % bad[:3], wit)
            return
        for i in range(6):
            if not fc.set('post-crash-%d' % i, i, retry=True) or fc.get('post-crash-%d' % i) != i:
                res.violation('a write after the kill failed', wit)
                return
    finally:
        fc.close()


def open_kill_tier(dc, sc, res, kind, initial, label, stride=1, offset=0):
    """SIGKILL at every gate of: open (create or re-open) the directory, then one file-backed write."""
    init = sc.new('oinit')
    if initial == 'empty':
        os.makedirs(init)
    elif initial == 'populated':
        obj = open_object(dc, init, kind)
        for i in range(3):
            if kind == 'deque':
                obj.append('old-%d;' % i * (1 + 6000 * (i % 2)))
            else:
                obj['old-%d' % i] = 'old-%d;' % i * (1 + 6000 * (i % 2))
        (obj.cache if kind in ('deque', 'index') else obj).close()

    def snapshot(path):
        if kind == 'fanout':
            return fanout_contents(dc, path)
        return crash.contents(dc, path, kind)

    def clone():
        d = sc.new('ok')
        if initial != 'absent':
            crash.copy_dir(init, d)
        return d

    probe_dir = clone()
    s0 = snapshot(probe_dir)             # what an untouched copy shows (opening an absent directory creates it)
    sc.drop(probe_dir)
    dry = clone()
    how, status, recs = crash.fork_call(lambda: open_child(dc, dry, kind, None, dry + '.log'), dry + '.log')
    fin = [r for r in recs if r.get('finished')]
    if os.path.exists(dry + '.log'):
        os.unlink(dry + '.log')
    if how != 'exited' or not fin:
        res.inconclusive.append('%s: dry run of the open program did not finish (%s)' % (label, how))
        sc.drop(dry)
        return
    s1 = snapshot(dry)
    sc.drop(dry)
    G = fin[0]['gates']
    labels = fin[0]['labels'] or []
    opened_at = [r['opened'] for r in recs if 'opened' in r][0]
    for k in range(1 + offset, G + 1, stride):
        d = clone()
        log = d + '.log'
        how, status, recs = crash.fork_call(lambda: open_child(dc, d, kind, k, log), log)
        if os.path.exists(log):
            os.unlink(log)
        if how == 'exited' and any(r.get('finished') for r in recs):
            res.count('kill_points_beyond_end_of_run')
            sc.drop(d)
            continue
        if how != 'killed':
            res.inconclusive.append('%s: child at gate %d ended as %s' % (label, k, how))
            sc.drop(d)
            continue
        opened = any('opened' in r for r in recs)
        gate_label = labels[k - 1] if k - 1 < len(labels) else '?'
        wit = {'label': label, 'tier': 'open-kill', 'kind': kind, 'directory_before': initial, 'kill_gate': k,
               'gate_label': gate_label, 'gates_in_open': opened_at, 'killed_during': 'first write' if opened else 'open'}
        acceptable = [s0, s1] if opened else [s0]
        if kind == 'fanout':
            judge_fanout(dc, res, d, acceptable, wit)
        else:
            judge(dc, res, d, kind, None, acceptable, label, wit)
        res.count('evaluations')
        res.count('gate_kills_judged')
        res.count('kills_during_open' if not opened else 'kills_during_first_write')
        res.seen('kill_points', ('open', kind, initial, k))
        sc.drop(d)
        if res.new_violations() > 12:
            break
    if initial != 'absent':
        sc.drop(init)


# ------------------------------- tier 1c: a reader keeps the COMMIT of a rollback-journal database waiting
def blocked_commit_tier(dc, sc, res, rng, label):
    """Another connection holds a read transaction, so in a rollback-journal database the writer's COMMIT cannot get
    its exclusive lock within the timeout and fails.  The writer goes on with further calls on the same handle and is
    then killed.  Every call that RETURNED normally must be present afterwards (calls that raised promise nothing)."""
    import signal
    import sqlite3
    journal = rng.choice(JOURNALS)
    d = sc.new('bc')
    init = dc.Cache(d, sqlite_journal_mode=journal, **SETTINGS)
    init.set('old-inline', 'o')
    init.set('old-file', 'O' * 300)
    init.set('n', 10)
    init.close()
    log = d + '.log'
    go = d + '.go'
    with_reader = rng.random() < 0.8
    reader = None
    big = lambda t: (t + ';') * 60      # noqa: E731
    ops = [('set', 'k0', 'v0'), ('set', 'k1', big('v1')), ('incr', 'n', 5), ('delete', 'old-inline'),
           ('set', 'old-file', 'replaced'), ('block', 'k2', big('v2'), 'k3', 'v3'), ('pop', 'k0')]
    rng.shuffle(ops)

    def child():
        code = 0
        try:
            fd = os.open(log, os.O_WRONLY | os.O_CREAT | os.O_APPEND, 0o644)
            cache = dc.Cache(d, timeout=0.02)
            cache.get('n')
            os.write(fd, (json.dumps({'opened': True}) + '\n').encode())
            import time as _t
            t_end = _t.monotonic() + 30
            while not os.path.exists(go) and _t.monotonic() < t_end:      # the reader arrives once the handle is open
                _t.sleep(0.002)
            for i, op in enumerate(ops):
                try:
                    if op[0] == 'set':
                        cache.set(op[1], op[2])
                    elif op[0] == 'incr':
                        cache.incr(op[1], op[2])
                    elif op[0] == 'delete':
                        cache.delete(op[1])
                    elif op[0] == 'pop':
                        cache.pop(op[1])
                    else:
                        with cache.transact():
                            cache.set(op[1], op[2])
                            cache.set(op[3], op[4])
                    os.write(fd, (json.dumps({'returned': i}) + '\n').encode())
                except Exception as exc:      # noqa: BLE001
                    os.write(fd, (json.dumps({'raised': i, 'error': type(exc).__name__}) + '\n').encode())
            os.kill(os.getpid(), signal.SIGKILL)
        except BaseException:      # noqa: BLE001
            code = 3
        os._exit(code)

    try:
        import time as _t
        pid = os.fork()
        if pid == 0:
            try:
                child()
            finally:
                os._exit(3)
        t_end = _t.monotonic() + 30
        while _t.monotonic() < t_end and not any('opened' in r for r in crash.read_log(log)):
            _t.sleep(0.005)
        if with_reader:
            reader = sqlite3.connect(os.path.join(d, 'cache.db'), isolation_level=None, timeout=5)
            reader.execute('BEGIN')
            reader.execute('SELECT COUNT(*) FROM Cache').fetchall()     # SHARED lock until this transaction ends
        open(go, 'w').close()
        t_end = _t.monotonic() + 60
        how = 'watchdog'
        while _t.monotonic() < t_end:
            wpid, status = os.waitpid(pid, os.WNOHANG)
            if wpid:
                how = 'killed' if os.WIFSIGNALED(status) else 'exited'
                break
            _t.sleep(0.002)
        if how == 'watchdog':
            os.kill(pid, signal.SIGKILL)
            os.waitpid(pid, 0)
        recs = crash.read_log(log)
        if reader is not None:
            reader.execute('ROLLBACK')
            reader.close()
            reader = None
        if how != 'killed':
            res.inconclusive.append('%s: child ended as %s' % (label, how))
            return
        returned = [r['returned'] for r in recs if 'returned' in r]
        raised = [(r['raised'], r['error']) for r in recs if 'raised' in r]
        wit = {'label': label, 'tier': 'blocked-commit', 'journal_mode': journal, 'reader_holding_shared_lock': with_reader,
               'program': ops, 'calls_that_returned': returned, 'calls_that_raised': raised}
        res.count('evaluations')
        res.count('blocked_commit_runs')
        if raised:
            res.count('blocked_commit_runs_with_failed_commit')
        res.seen('kill_points', ('blocked-commit', journal, with_reader, tuple(returned)))
        fresh = dc.Cache(d, timeout=5)
        try:
            # replay what returned over the initial content, in program order
            want = {'old-inline': 'o', 'old-file': 'O' * 300, 'n': 10}
            for i in returned:
                op = ops[i]
                if op[0] == 'set':
                    want[op[1]] = op[2]
                elif op[0] == 'incr':
                    want[op[1]] = want.get(op[1], 0) + op[2]
                elif op[0] in ('delete', 'pop'):
                    want.pop(op[1], None)
                else:
                    want[op[1]], want[op[3]] = op[2], op[4]
            got = {k: fresh.get(k) for k in fresh}
            if raised and not with_reader:
                res.violation('calls raised although nothing kept the database busy: %r' % (raised[:3],), wit)
                return
            if not raised and got != want:
                res.violation('calls that returned before the kill are not (all) present afterwards',
                              dict(wit, got=sorted(got.items())[:8], expected=sorted(want.items())[:8]))
                return
            if raised:
                # a call that raised may or may not have taken effect; the ones that returned must be there
                for k, v in want.items():
                    touched_by_raised = any(k in [x for x in ops[i][1:] if isinstance(x, str)] for i, _ in raised)
                    if not touched_by_raised and got.get(k, '<MISSING>') != v:
                        res.violation('a call on %r returned normally before the kill but its effect is gone afterwards '
                                      '(found %r, expected %r)' % (k, got.get(k, '<MISSING>'), v), wit)
                        return
                for k in got:
                    if k not in want and not any(k in [x for x in ops[i][1:] if isinstance(x, str)] for i, _ in raised):
                        res.violation('key %r was removed by a call that returned normally but is present after the kill' % (k,), wit)
                        return
        finally:
            fresh.close()
        judge(dc, res, d, 'cache', None, [crash.contents(dc, d, 'cache')], label, wit)
    finally:
        if reader is not None:
            reader.close()
        for fn in (log, go):
            if os.path.exists(fn):
                os.unlink(fn)
        sc.drop(d)


# --------------------------------------------------------------- tier 2: strace
SYSCALLS = ['pwrite64', 'fdatasync', 'fsync', 'ftruncate', 'unlink', 'rmdir', 'mkdir', 'rename', 'openat', 'pwritev']


def waiting_writer_tier(dc, sc, res, rng, label):
    """A process is killed inside a transaction while another process is waiting for the write lock with a write of its
    own (its value file is already written, its BEGIN has failed at least once).  The killed transaction leaves
    nothing but debris; the waiting write goes through once the lock is gone and is complete afterwards."""
    import signal
    import time as _t
    journal = rng.choice(['wal', 'wal'] + JOURNALS)
    d = sc.new('ww')
    init = dc.Cache(d, **dict(SETTINGS, **common.journal_kw(journal)))
    init.set('old', 'O' * 300)
    init.close()
    inside, done, ready = d + '.inside', d + '.done', d + '.ready'
    how = rng.choice(['set', 'setitem', 'add', 'push', 'replace'])
    payload = ('w%d;' % rng.randrange(1000)) * 80

    def holder():
        cache = dc.Cache(d)
        with cache.transact():
            cache.set('doomed', 'D' * 300)
            cache.set('old', 'never committed')
            open(inside, 'w').close()
            _t.sleep(30)

    def waiter():
        cache = dc.Cache(d, timeout=0.03)        # (opened before the other process takes the lock: opening writes settings)
        cache.get('old')
        open(ready, 'w').close()
        t_end = _t.monotonic() + 20
        while not os.path.exists(inside) and _t.monotonic() < t_end:
            _t.sleep(0.002)
        if how == 'set':
            ok = cache.set('w', payload, retry=True)
        elif how == 'setitem':
            cache['w'] = payload
            ok = True
        elif how == 'add':
            ok = cache.add('w', payload, retry=True)
        elif how == 'replace':
            ok = cache.set('old', payload, retry=True)
        else:
            ok = cache.push(payload, prefix='w', retry=True) is not None
        with open(done, 'w') as f:
            f.write(repr(ok))
    pids = []
    try:
        wpid = os.fork()
        if wpid == 0:
            code = 3
            try:
                waiter()
                code = 0
            finally:
                os._exit(code)
        pids.append(wpid)
        t_end = _t.monotonic() + 20
        while not os.path.exists(ready) and _t.monotonic() < t_end:
            _t.sleep(0.002)
        hpid = os.fork()
        if hpid == 0:
            try:
                holder()
            finally:
                os._exit(3)
        pids.append(hpid)
        t_end = _t.monotonic() + 20
        while not os.path.exists(inside) and _t.monotonic() < t_end:
            _t.sleep(0.002)
        _t.sleep(0.15 + 0.2 * rng.random())          # the waiter writes its file and fails a few BEGINs meanwhile
        os.kill(hpid, signal.SIGKILL)
        os.waitpid(hpid, 0)
        _, status = os.waitpid(wpid, 0)
        pids = []
        wit = {'label': label, 'journal_mode': journal, 'waiting_call': how}
        res.count('evaluations')
        res.count('kills_beside_a_waiting_writer')
        if status != 0 or not os.path.exists(done):
            res.violation('the write that waited for the lock of a killed process did not complete (status %r)' % (status,), wit)
            return
        fresh = dc.Cache(d)
        try:
            got = fresh.get('old' if how == 'replace' else 'w', 'MISSING') if how != 'push' else fresh.pull(prefix='w')[1]
            doomed = fresh.get('doomed', 'MISSING')
            old = fresh.get('old', 'MISSING')
            if got != payload or doomed != 'MISSING' or (how != 'replace' and old != 'O' * 300):
                res.violation('after a kill beside a waiting %s: the waiting write reads %r..., the killed transaction\'s key reads '
                              '%r, the key it had rewritten reads %r...' % (how, str(got)[:16], doomed, str(old)[:16]), wit)
                return
            bad = [w for w in observe.check_warnings(fresh) if 'file not found' in w or 'Settings' in w]
            if bad:
                res.violation('check() after a kill beside a waiting %s reports more than debris: %r' % (how, bad[:3]), wit)
        finally:
            fresh.close()
    finally:
        for pid in pids:
            try:
                os.kill(pid, signal.SIGKILL)
                os.waitpid(pid, 0)
            except OSError:
                pass
        for f in (inside, done, ready):
            if os.path.exists(f):
                os.unlink(f)
        sc.drop(d)


def strace_available():
    import shutil as _sh
    return _sh.which('strace') is not None


def child_cmd(args):
    return [common.PY, '-m', 'vf.children.c07'] + args


def child_env():
    env = dict(os.environ, VF_REPO=common.REPO, PYTHONDONTWRITEBYTECODE='1', PYTHONHASHSEED='0')
    env['PYTHONPATH'] = common.VERIF + os.pathsep + env.get('PYTHONPATH', '')
    return env


def syscall_tier(dc, sc, res, rng, prog_id, spec, label, budget, journal='wal'):
    """SIGKILL injected by strace at the n-th file-mutating syscall of the workload phase (inside SQLite too)."""
    kind, maxlen, setup, program = spec
    init = sc.new('sinit')
    build_initial(dc, init, kind, maxlen, setup, journal)
    s_init = crash.contents(dc, init, kind)
    dry = sc.new('sdry')
    crash.copy_dir(init, dry)
    how, status, recs = crash.run_forked(dc, dry, kind, SETTINGS, program, None, dry + '.log', maxlen)
    sc.drop(dry)
    if os.path.exists(dry + '.log'):
        os.unlink(dry + '.log')
    if how != 'exited' or not any(r.get('finished') for r in recs):
        res.inconclusive.append('%s: dry run did not finish' % label)
        return
    states, commits, cur = {-1: s_init}, {}, None
    for r in recs:
        if 'start' in r:
            cur = r['start']
            commits[cur] = []
        elif 'commit_state' in r and cur is not None:
            commits[cur].append([tuple(x) if isinstance(x, list) else x for x in r['commit_state']])
        elif 'done' in r:
            states[r['done']] = [tuple(x) if isinstance(x, list) else x for x in r['state']]
    specfile = init + '.spec.json'
    with open(specfile, 'w') as f:
        json.dump({'kind': kind, 'maxlen': maxlen, 'program': program, 'settings': SETTINGS}, f)
    # counting run
    cnt = sc.new('scount')
    crash.copy_dir(init, cnt)
    trace = cnt + '.strace'
    p = subprocess.run(['strace', '-f', '-qq', '-e', 'trace=' + ','.join(SYSCALLS), '-o', trace] +
                       child_cmd(['syscall', cnt, specfile, cnt + '.log']), env=child_env(), cwd=common.VERIF,
                       capture_output=True, timeout=120)
    sc.drop(cnt)
    if p.returncode != 0 or not os.path.exists(trace):
        res.inconclusive.append('%s: strace counting run failed: %s' % (label, p.stderr.decode()[-300:]))
        return
    startup, work, phase = {}, {}, 0
    with open(trace) as f:
        for line in f:
            if 'VF_MARK' in line:
                phase += 1
                continue
            for sname in SYSCALLS:
                if (' ' + sname + '(') in line or line.startswith(sname + '(') or (sname + '(') in line.split(' ', 2)[-1][:len(sname) + 1]:
                    (startup if phase == 0 else work if phase == 1 else {}).setdefault(sname, 0)
                    if phase == 0:
                        startup[sname] += 1
                    elif phase == 1:
                        work[sname] += 1
                    break
    for fn in (trace, cnt + '.log'):
        if os.path.exists(fn):
            os.unlink(fn)
    points = [(sname, n) for sname, c in work.items() for n in range(1, c + 1)]
    if not points:
        # a random program may consist of calls that change nothing (lookups, removals of absent keys): nothing to kill
        # at.  The tier as a whole must still have judged kills (`syscall_kills_judged` is a required counter).
        res.count('syscall_tier_programs_without_mutating_syscalls')
        return
    rng.shuffle(points)
    for sname, n in points[:budget]:
        d = sc.new('sk')
        crash.copy_dir(init, d)
        when = startup.get(sname, 0) + n
        p = subprocess.run(['strace', '-f', '-qq', '-o', '/dev/null', '-e', 'trace=' + sname, '-e',
                            'inject=%s:signal=KILL:when=%d' % (sname, when)] +
                           child_cmd(['syscall', d, specfile, d + '.log']), env=child_env(), cwd=common.VERIF,
                           capture_output=True, timeout=120)
        recs = crash.read_log(d + '.log')
        if os.path.exists(d + '.log'):
            os.unlink(d + '.log')
        if any(r.get('finished') for r in recs):
            res.count('syscall_kill_points_beyond_end_of_run')
            sc.drop(d)
            continue
        started = [r['start'] for r in recs if 'start' in r]
        done = [r['done'] for r in recs if 'done' in r]
        j = started[-1] if started else 0
        if j in done:
            j += 1
        op = program[j] if j < len(program) else ('<after-last>',)
        acceptable = [states[j - 1], states.get(j, states[j - 1])]
        if op[0] in crash.NON_ATOMIC[kind]:
            acceptable.extend(commits.get(j, []))
        wit = {'label': label, 'tier': 'syscall', 'kind': kind, 'setup': setup, 'program': program,
               'killed_at': '%s #%d of the workload' % (sname, n), 'interrupted_op_index': j, 'interrupted_op': op}
        judge(dc, res, d, kind, maxlen, acceptable, label, wit)
        res.count('evaluations')
        res.count('syscall_kills_judged')
        res.seen('syscall_kills', (prog_id, sname, n))
        sc.drop(d)
    os.unlink(specfile)
    sc.drop(init)


# ------------------------------------------------- tier 3: SIGKILL from outside
def random_kill_tier(dc, sc, res, rng, seed, label):
    import signal
    import time as _t
    from ..children import c07 as child
    d = sc.new('rk')
    dc.Cache(d, disk_min_file_size=T).close()
    prefix = d + '.tlog'
    p = subprocess.Popen(child_cmd(['threads', d, str(seed), prefix]), env=child_env(), cwd=common.VERIF,
                         stdout=subprocess.DEVNULL, stderr=subprocess.PIPE)
    deadline = _t.monotonic() + 60
    while _t.monotonic() < deadline:
        if all(os.path.exists('%s.%d' % (prefix, t)) and os.path.getsize('%s.%d' % (prefix, t)) > 40 for t in range(2)):
            break
        if p.poll() is not None:
            break
        _t.sleep(0.01)
    _t.sleep(rng.random() * 0.15)
    p.send_signal(signal.SIGKILL)
    err = p.communicate()[1]
    if p.returncode != -9:
        res.inconclusive.append('%s: threaded child ended with %r: %s' % (label, p.returncode, err.decode()[-300:]))
        return
    wit = {'label': label, 'tier': 'random-kill'}
    try:
        fresh = dc.Cache(d, timeout=5)
        for t in range(2):
            lines = open('%s.%d' % (prefix, t)).read().split()
            toks = list(zip(lines[0::2], lines[1::2]))
            ndone = sum(1 for a, _ in toks if a == 'd')
            model = {}
            acceptable = []
            ops = list(child.thread_ops(t, ndone + 1))
            for i, (op, k, st, big) in enumerate(ops):
                if i == ndone:
                    acceptable.append(dict(model))
                if op == 'set':
                    model[k] = crash.payload(st, big)
                else:
                    model.pop(k, None)
            acceptable.append(dict(model))
            got = {}
            for k in ['t%d-a' % t, 't%d-b' % t, 't%d-c' % t]:
                v = fresh.get(k, None)
                if v is not None:
                    got[k] = v
                if (k in fresh) != (v is not None):
                    res.violation('after the kill key %r is reported present but yields no value' % k, wit)
                    return
            res.count('evaluations')
            res.count('random_kills_judged')
            res.seen('random_kills', (label, t, ndone))
            if got not in acceptable:
                res.violation('after a SIGKILL at a random instant thread %d\'s keys are in neither the state after %d nor '
                              'after %d completed operations' % (t, ndone, ndone + 1),
                              dict(wit, got={k: v[:12] for k, v in got.items()},
                                   acceptable=[{k: v[:12] for k, v in a.items()} for a in acceptable]))
                return
        bad = [str(w.message) for w in fresh.check() if not issubclass(w.category, (dc.UnknownFileWarning, dc.EmptyDirWarning))]
        if bad:
            res.violation('check() after a random SIGKILL reports more than debris: %r' % bad[:3], wit)
            return
        fresh.set('post-crash', 1)
        fresh.check(fix=True)
        if fresh.check():
            res.violation('check() after the repair still reports %r' % [str(w.message) for w in fresh.check()][:3], wit)
        fresh.close()
    finally:
        for t in range(2):
            if os.path.exists('%s.%d' % (prefix, t)):
                os.unlink('%s.%d' % (prefix, t))
        sc.drop(d)


def run_shard(tier, seed, shard, nshards, res):
    dc = common.use_repo()
    probe.install()
    progs = programs()
    with common.Scratch() as sc:
        # fixed programs: every gate, spread over the shards by program
        for i, spec in enumerate(progs):
            if i % nshards != shard:
                continue
            journal = 'wal' if (i + seed) % 2 == 0 else JOURNALS[(i // 2 + seed) % 3]
            res.count('programs_journal_' + journal)
            res.count('programs_wal' if journal == 'wal' else 'programs_rollback_journal')
            enumerate_program(dc, sc, res, 'fixed%d-%s' % (i, journal), spec,
                              'c07 fixed program %d journal=%s' % (i, journal), journal=journal)
        # random programs: every gate of each
        n = 1 if tier == 'quick' else 12
        for i in range(n):
            rng = common.rng_for(seed, 'c07', shard, i)
            spec = random_program(rng)
            journal = rng.choice(['wal', 'wal'] + JOURNALS)
            res.count('programs_journal_' + journal)
            res.count('programs_wal' if journal == 'wal' else 'programs_rollback_journal')
            enumerate_program(dc, sc, res, 'rand-%d-%d-%d' % (seed, shard, i), spec,
                              'c07 random program seed=%d shard=%d i=%d journal=%s' % (seed, shard, i, journal),
                              journal=journal)
            if res.new_violations() > 12:
                return
        # tier 1b: kills while the directory is being created / re-opened, one variant per shard
        variants = [(k, ini) for ini in ('absent', 'populated', 'empty') for k in OPEN_KINDS]
        for v in range(shard, len(variants) * (1 if tier == 'quick' else 2), nshards):
            kind, initial = variants[v % len(variants)]
            open_kill_tier(dc, sc, res, kind, initial, 'c07 open-kill kind=%s directory=%s' % (kind, initial))
            if res.new_violations() > 12:
                return
        # tier 1c: the COMMIT of a rollback-journal database kept waiting by a reader
        probe.reset()
        for i in range(3 if tier == 'quick' else 30):
            rng = common.rng_for(seed, 'c07b', shard, i)
            blocked_commit_tier(dc, sc, res, rng, 'c07 blocked commit seed=%d shard=%d i=%d' % (seed, shard, i))
        for i in range(3 if tier == 'quick' else 30):
            rng = common.rng_for(seed, 'c07w', shard, i)
            waiting_writer_tier(dc, sc, res, rng, 'c07 waiting writer seed=%d shard=%d i=%d' % (seed, shard, i))
        # tier 2: kills inside SQLite via strace syscall injection
        probe.reset()
        if strace_available():
            rng = common.rng_for(seed, 'c07s', shard)
            spec = progs[(shard + seed) % len(progs)] if rng.random() < 0.6 else random_program(rng)
            if spec[0] == 'cache' and len(spec[2]) > 50:
                spec = progs[0]
            journal = rng.choice(['wal'] + JOURNALS)
            syscall_tier(dc, sc, res, rng, 'sys-%d-%d-%s' % (seed, shard, journal), spec,
                         'c07 syscall tier seed=%d shard=%d journal=%s' % (seed, shard, journal),
                         budget=3 if tier == 'quick' else 120, journal=journal)
        else:
            res.inconclusive.append('strace is not installed: the syscall-kill tier did not run')
        # tier 3: SIGKILL from outside at random instants into a 2-thread child
        for i in range(1 if tier == 'quick' else 20):
            rng = common.rng_for(seed, 'c07r', shard, i)
            random_kill_tier(dc, sc, res, rng, seed * 1000 + shard * 20 + i, 'c07 random kill seed=%d shard=%d i=%d' % (seed, shard, i))
