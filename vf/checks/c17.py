"""C17 - check(fix=True) repairs any out-of-band damage; plain check() only reports."""

import hashlib
import os
import pickle
import pickletools
import sqlite3

from .. import common, gen, observe, probe

PROP = 'C17'
LEVEL = 'fault_enumeration'
RULE = ('caches (and FanoutCache shards) holding inline, binary-file, text-file and pickle-file items are damaged behind '
        'the library\'s back: every single damage kind (value file deleted / truncated / extended, unknown file added at '
        'depth 0-3 and in fresh directories, nested empty directories, Settings.count / Settings.size skewed) and seeded '
        'random combinations of 2-5 of them. Ground truth is the injected damage: plain check() must report exactly the '
        'corresponding warnings (category + path) and leave table dumps and the file tree (sizes + content hashes) '
        'bit-identical; check(fix=True) must report at least these, a following check() must report nothing, every '
        'remaining item must be readable, undamaged items must keep value and metadata, items whose file was deleted '
        'must be gone. evaluations = damage cases; distinct_nontrivial = distinct (container, sorted damage kinds, '
        'value modes hit) cases')
DISTINCT = ('damage_cases',)
REQUIRED = ('population_many', 'population_empty', 'cases_losing_every_value_file', 'spelling_relative', 'spelling_dotdot', 'single_damage_cases', 'combined_damage_cases', 'fanout_cases', 'plain_checks_compared', 'fix_then_clean',
            'items_read_after_fix', 'kinds_deleted', 'kinds_truncated', 'kinds_extended', 'kinds_unknown', 'kinds_emptydir',
            'kinds_count', 'kinds_size', 'checks_refused_under_a_held_lock', 'writes_completed_right_before_the_lock_of_check', 'journal_mode_wal', 'journal_mode_truncate', 'journal_mode_persist', 'journal_mode_delete')
ASSUMPTIONS = ('a repair may legitimately add "empty directory" warnings for directories it has just emptied',)

T = 64
KINDS = ['deleted', 'truncated', 'extended', 'unknown', 'emptydir', 'count', 'size', 'moved', 'copied']


def plan(tier):
    return {'nshards': 16 if tier == 'quick' else 48, 'timeout': 900 if tier == 'quick' else 3600}


TWIN = pickletools.optimize(pickle.dumps(('user', 1), protocol=pickle.HIGHEST_PROTOCOL))


def populate(c, population='full'):
    items = {
        'inline': 'small', 'int': 7, 'bin_file': b'B' * (T + 30), 'bin_file2': b'C' * (T + 90),
        'text_file': 'texte-é' * 20, 'text_file2': 'plain ascii text ' * 10, 'pickle_file': ['P' * (T + 50), 2, None],
        'pickle_file2': {'k': 'Q' * (T + 10)}, 'tuple_inline': (1, 2),
        # keys of other types; a composite key and the bytes key equal to its stored form share the key column (they
        # differ in the raw flag only) - both hold value files, so damage to one must not be repaired on the other
        ('user', 1): b'U' * (T + 40), TWIN: b'T' * (T + 60), 7: 'int-key-file ' * 12, b'bytes-key': ['L' * (T + 5)], None: 'n',
    }
    # what the cache holds is a dimension: everything, only items with value files (a repair that deletes them all
    # leaves an empty table), a single one, nothing
    if population == 'many':
        # more file-backed items than any page the library may read rows in (its bulk operations use pages of 100)
        for i in range(260):
            items['many-%03d' % i] = (b'M' if i % 2 else 'm') * (T + 1 + i % 9)
    keep = {'full': list(items), 'many': list(items), 'files_only': ['bin_file', 'text_file', 'pickle_file', ('user', 1), TWIN, 7],
            'single_file': ['pickle_file2'], 'empty': []}[population]
    items = {k: v for k, v in items.items() if k in keep}
    for i, (k, v) in enumerate(items.items()):
        c.set(k, v, tag='t%d' % (i % 2), expire=1e6 if i % 3 == 0 else None)
    return items


def tree(d):
    out = {}
    for dirpath, dirnames, filenames in os.walk(d):
        rel = os.path.relpath(dirpath, d)
        if not dirnames and not filenames:
            out[rel + '/'] = 'EMPTYDIR'
        for fn in filenames:
            if fn.startswith('cache.db'):
                continue
            p = os.path.join(dirpath, fn)
            with open(p, 'rb') as f:
                out[os.path.normpath(os.path.join(rel, fn))] = hashlib.sha1(f.read()).hexdigest()
    return out


def table(d):
    o = observe.Observer(d)
    try:
        rows, sets = o.snapshot()
        return rows, {k: v for k, v in sets.items()}
    finally:
        o.close()


def damage(rng, d, kind, rows, done):
    """Apply one damage to directory d; return (expected warning key, description) or None."""
    file_rows = [r for r in rows if r['filename'] and r['filename'] not in done]
    if kind in ('deleted', 'truncated', 'extended'):
        if not file_rows:
            return None
        r = gen.pick(rng, file_rows)
        done.add(r['filename'])
        p = os.path.join(d, r['filename'])
        if kind == 'deleted':
            os.remove(p)
            return ('file not found', p, r)
        size = os.path.getsize(p)
        if kind == 'truncated':
            new = rng.randrange(0, size)
            with open(p, 'r+b') as f:
                f.truncate(new)
        else:
            with open(p, 'ab') as f:
                f.write(b'\x00extra' * rng.randrange(1, 4))
        return ('wrong file size', p, r)
    if kind in ('moved', 'copied'):
        # a value file carried to another place inside the cache directory under its own name (a backup, a move by
        # hand): where it was it is missing (moved), where it is now it is a file nobody refers to
        if not file_rows:
            return None
        r = gen.pick(rng, file_rows)
        src = os.path.join(d, r['filename'])
        dd = os.path.join(d, gen.pick(rng, ['elsewhere', 'backup/old', os.path.dirname(r['filename']) + 'x']))
        dst = os.path.join(dd, os.path.basename(src))
        if os.path.exists(dst):
            return None
        os.makedirs(dd, exist_ok=True)
        import shutil
        if kind == 'moved':
            done.add(r['filename'])
            os.rename(src, dst)
            return [('file not found', src, r), ('unknown file', dst, None)]
        shutil.copyfile(src, dst)
        return ('unknown file', dst, None)
    if kind == 'unknown':
        depth = rng.randrange(0, 4)
        parts = ['%02x' % rng.randrange(256) for _ in range(depth)]
        if rng.random() < 0.4 and file_rows and depth >= 2:
            parts = list(os.path.split(os.path.dirname(gen.pick(rng, file_rows)['filename'])))   # next to a real value file
        dd = os.path.join(d, *parts) if parts else d
        os.makedirs(dd, exist_ok=True)
        p = os.path.join(dd, gen.pick(rng, ['stray.val', 'x.tmp', 'deadbeef.val']))
        if os.path.exists(p):
            return None
        with open(p, 'wb') as f:
            f.write(b'junk' * rng.randrange(0, 5))
        return ('unknown file', p, None)
    if kind == 'emptydir':
        depth = rng.randrange(1, 4)
        parts = ['e%02x' % rng.randrange(256) for _ in range(depth)]
        dd = os.path.join(d, *parts)
        if os.path.exists(dd):
            return None
        os.makedirs(dd)
        return ('empty directory', dd, None)
    con = sqlite3.connect(os.path.join(d, 'cache.db'), isolation_level=None, timeout=5)
    try:
        if kind == 'count':
            if 'count' in done:
                return None
            done.add('count')
            con.execute("UPDATE Settings SET value = value + ? WHERE key = 'count'", (gen.pick(rng, [1, -1, 5]),))
            return ('Settings.count', None, None)
        if 'size' in done:
            return None
        done.add('size')
        con.execute("UPDATE Settings SET value = value + ? WHERE key = 'size'", (gen.pick(rng, [1, 100, -1]),))
        return ('Settings.size', None, None)
    finally:
        con.close()


def expected_warnings(d, injected):
    """Ground truth from the injected damage plus every empty directory now in the tree."""
    exp = []
    for what, path, _ in injected:
        if what == 'empty directory':
            continue
        exp.append((what, path))
    for dirpath, dirnames, filenames in os.walk(d):
        if not dirnames and not filenames:
            exp.append(('empty directory', dirpath))
    return sorted(exp, key=repr)


def observed_warnings(dc, warns):
    out = []
    for w in warns:
        msg = str(w.message)
        if issubclass(w.category, dc.UnknownFileWarning):
            out.append(('unknown file', msg.split(': ', 1)[1]))
        elif issubclass(w.category, dc.EmptyDirWarning):
            out.append(('empty directory', msg.split(': ', 1)[1]))
        elif msg.startswith('file not found'):
            out.append(('file not found', msg.split(': ', 1)[1]))
        elif msg.startswith('wrong file size'):
            out.append(('wrong file size', msg.split(': ', 1)[1].rsplit(',', 1)[0]))
        elif msg.startswith('Settings.count'):
            out.append(('Settings.count', None))
        elif msg.startswith('Settings.size'):
            out.append(('Settings.size', None))
        else:
            out.append(('other', msg))
    return sorted(out, key=repr)


def classify_unreadable(row):
    """K4: a truncated pickle/text value file survives the repair unreadable."""
    if row is not None and row['mode'] in (3, 4) and row.get('damage_kind') == 'truncated':
        return 'truncated-pickle-or-text-file-kept-by-fix'
    return None


def case(dc, sc, res, rng, kinds, fanout, label):
    spelling = gen.pick(rng, ['absolute', 'absolute', 'relative', 'dotdot', 'trailing-slash'])
    cwd = os.getcwd()
    try:
        return _case(dc, sc, res, rng, kinds, fanout, label, spelling)
    finally:
        os.chdir(cwd)


def _case(dc, sc, res, rng, kinds, fanout, label, spelling):
    d = sc.new()
    real_d = d
    if spelling == 'relative':
        os.chdir(os.path.dirname(d))
        d = os.path.basename(d)
    elif spelling == 'dotdot':
        os.makedirs(real_d + '-side', exist_ok=True)
        d = os.path.join(real_d + '-side', '..', os.path.basename(real_d))
    elif spelling == 'trailing-slash':
        d = d + '/'
    res.count('spelling_' + spelling.replace('-', '_'))
    # the SQLite journal mode decides which side files (cache.db-wal/-shm or cache.db-journal) live next to cache.db;
    # none of them is a value file, none is damage
    journal = gen.pick(rng, ['wal', 'wal', 'truncate', 'persist', 'delete'])
    res.count('journal_mode_' + journal)
    population = gen.pick(rng, ['full', 'full', 'full', 'files_only', 'single_file', 'empty', 'many'])
    res.count('population_' + population)
    if fanout:
        f = dc.FanoutCache(d, shards=3, disk_min_file_size=T, **common.journal_kw(journal))
        items = populate(f, population)
        f.close()
        shard_dirs = [os.path.join(d, '%03d' % i) for i in range(3)]
        target = gen.pick(rng, [s for s in shard_dirs if [r for r in table(s)[0] if r['filename']]] or shard_dirs)
        res.count('fanout_cases')
    else:
        c = dc.Cache(d, disk_min_file_size=T, **common.journal_kw(journal))
        items = populate(c, population)
        c.close()
        target = d
    try:
        rows = table(target)[0]
        if population in ('files_only', 'single_file') and rng.random() < 0.6:
            # every value file is lost: the repair empties the table, and the counters must follow
            kinds = ['deleted'] * len(rows) + list(kinds)
            res.count('cases_losing_every_value_file')
        pre_rows_all = {sd: table(sd)[0] for sd in ([target] if not fanout else shard_dirs)}
        injected, done = [], set()
        for k in kinds:
            r = damage(rng, target, k, rows, done)
            for r in (r if isinstance(r, list) else [r]):
                if r is not None:
                    injected.append(r)
                    if r[2] is not None:
                        r[2]['damage_kind'] = 'deleted' if k == 'moved' else k
                    res.count('kinds_' + k)
        if not injected:
            return
        modes = tuple(sorted({r['mode'] for _, _, r in injected if r}))
        res.seen('damage_cases', (fanout, tuple(sorted(kinds)), modes))
        wit = {'label': label, 'kinds': kinds, 'fanout': fanout, 'population': population, 'directory_spelling': spelling, 'journal_mode': journal,
               'injected': [(w, os.path.relpath(p, d) if p else None) for w, p, _ in injected]}
        obj = dc.FanoutCache(d, shards=3) if fanout else dc.Cache(d)
        try:
            # ---- a check that cannot lock a database says so (raises): it never hands back a partial report
            if rng.random() < 0.3:
                from . import c14
                import sqlite3 as _sq
                holder = c14.Holder([target])
                quick = dc.FanoutCache(d, shards=3, timeout=0) if fanout else dc.Cache(d, timeout=0)
                try:
                    holder.take()
                    for fix in (False, True):
                        try:
                            partial = observed_warnings(dc, quick.check(fix=fix))
                        except (dc.Timeout, _sq.OperationalError):
                            res.count('checks_refused_under_a_held_lock')
                            continue
                        exp_all = expected_warnings(d, injected)
                        if [e for e in exp_all if e not in partial]:
                            res.violation('check(fix=%s) while %s was locked by another connection returned a report without %r' % (
                                fix, os.path.relpath(target, d) if fanout else 'the database',
                                [(a, os.path.relpath(b, d) if b else None) for a, b in exp_all if (a, b) not in partial][:4]), wit)
                            return
                finally:
                    holder.close()
                    quick.close()
            # ---- plain check: exactly the damage, nothing changed
            t0, tb0 = tree(d), [table(sd) for sd in ([d] if not fanout else shard_dirs)]
            got = observed_warnings(dc, obj.check())
            exp = expected_warnings(d, injected)
            res.count('plain_checks_compared')
            res.count('evaluations')
            if got != exp:
                res.violation('check() reported %r, the injected damage is %r' % (
                    [(a, os.path.relpath(b, d) if b else None) for a, b in got][:8],
                    [(a, os.path.relpath(b, d) if b else None) for a, b in exp][:8]), wit)
                return
            if tree(d) != t0 or [table(sd) for sd in ([d] if not fanout else shard_dirs)] != tb0:
                res.violation('plain check() changed the cache directory or tables', wit)
                return
            # ---- repair
            got_fix = observed_warnings(dc, obj.check(fix=True))
            missing = [e for e in exp if e not in got_fix]
            extra = [g for g in got_fix if g not in exp and g[0] != 'empty directory']
            if missing or extra:
                res.violation('check(fix=True) did not report %r / reported unrelated %r' % (missing[:4], extra[:4]), wit)
                return
            again = observed_warnings(dc, obj.check())
            if again:
                res.violation('check() after check(fix=True) still reports %r' % (
                    [(a, os.path.relpath(b, d) if b else None) for a, b in again][:5],), wit)
                return
            res.count('fix_then_clean')
            # ---- remaining items readable, undamaged untouched, deleted gone
            damaged = {r['rowid']: (what, r) for what, _, r in injected if r}
            shard_pre = pre_rows_all
            post_rows = {sd: {observe.row_ident(r['key'], r['raw']): r for r in table(sd)[0]} for sd in shard_pre}
            for sd, pre in shard_pre.items():
                for r in pre:
                    kid = observe.row_ident(r['key'], r['raw'])
                    key = observe.row_key(r['key'], r['raw'])
                    what = damaged.get(r['rowid'], (None, None))[0] if sd == target else None
                    now = post_rows[sd].get(kid)
                    if what == 'file not found':
                        if now is not None or key in obj:
                            res.violation('item %r whose value file was deleted is still present after the repair' % (key,), wit)
                            return
                        continue
                    if now is None:
                        res.violation('item %r was removed by the repair although its file was not deleted' % (key,), wit)
                        return
                    try:
                        val = obj[key]
                        res.count('items_read_after_fix')
                    except Exception as exc:       # noqa: BLE001
                        res.violation('after the repair item %r is present but unreadable: %s' % (key, type(exc).__name__),
                                      dict(wit, mode=r['mode'], damage=what), signature=classify_unreadable(damaged[r['rowid']][1] if what else None))
                        continue
                    if what is None:
                        same_meta = all(now[c] == r[c] for c in ('expire_time', 'tag', 'size', 'mode', 'filename', 'store_time'))
                        if val != items[key] or not same_meta:
                            res.violation('undamaged item %r was altered by the repair' % (key,), wit)
                            return
            for sd in shard_pre:
                problems = observe.invariant(sd)
                if problems:
                    res.violation('structural invariant broken after the repair: %r' % problems[:3], wit)
                    return
            if len(res.samples) < 3:
                res.sample(wit)
        finally:
            obj.close()
    finally:
        sc.drop(real_d)
        if os.path.isdir(real_d + '-side'):
            os.rmdir(real_d + '-side')


def check_beside_a_writer(dc, sc, res, rng, label):
    """No damage at all: another client completes one whole operation (create, replace or remove a file-backed item)
    right before check() takes its write lock.  check() must report nothing and check(fix=True) must leave every item
    as it is (what check compares - rows and files - is read under the lock)."""
    from ..sched import Recorder, Sched
    d = sc.new()
    clock = probe.set_clock(probe.VClock())
    cache = dc.Cache(d, disk_min_file_size=T, timeout=0)
    big = lambda t: (t + ';') * 40     # noqa: E731
    want = {'a': big('a0'), 'b': big('b0'), 'c': 'inline'}
    for k, v in want.items():
        cache.set(k, v)
    checker = dc.Cache(d, timeout=0)
    writer = dc.Cache(d, timeout=0)
    fix = rng.random() < 0.6
    what = rng.choice(['replace', 'create', 'delete', 'push'])
    sch = Sched(rng, clock, strategy='chase', victims=[0], chase_label='pre:BEGIN')
    rec = Recorder(sch)
    out = {}

    def run_check():
        out['warnings'] = observed_warnings(dc, checker.check(fix=fix, retry=True))

    def run_write():
        if what == 'replace':
            writer.set('a', big('a1'), retry=True)
            want['a'] = big('a1')
        elif what == 'create':
            writer.set('new', big('n0'), retry=True)
            want['new'] = big('n0')
        elif what == 'delete':
            writer.delete('b', retry=True)
            want.pop('b')
        else:
            want[writer.push(big('q0'), prefix='q', retry=True)] = big('q0')
    try:
        ok = sch.run([lambda: rec.call(0, 'check', (fix,), run_check), lambda: rec.call(1, what, (), run_write)])
        probe.set_controller(None)
        wit = {'label': label, 'fix': fix, 'other_client': what, 'writer_ran_in_front_of_the_lock': sch.chases,
               'trace_head': sch.trace[:40]}
        errs = sch.errors()
        chk = [o for o in rec.ops if o['op'] == 'check'][0]
        if not errs and ok and chk['kind'] == 'raise' and chk['result'] in ('OperationalError', 'Timeout') \
                and all(o['kind'] == 'ok' for o in rec.ops if o is not chk):
            res.count('checks_beside_a_writer_refused')       # e.g. the VACUUM of check(fix=True) is not retried: it says so
            return
        if errs or not ok or any(o['kind'] != 'ok' for o in rec.ops):
            res.violation('check() beside a writer did not complete: %s' % (
                errs[0][1][1][-300:] if errs else [(o['op'], o['kind'], o['result']) for o in rec.ops]), wit)
            return
        res.count('evaluations')
        res.count('checks_beside_a_writer')
        if sch.chases:
            res.count('writes_completed_right_before_the_lock_of_check')
        if out['warnings']:
            res.violation('check(fix=%s) on an undamaged cache reported %r after another client\'s %s' % (
                fix, [(a, os.path.relpath(b, d) if b else None) for a, b in out['warnings']][:4], what), wit)
            return
        fresh = dc.Cache(d)
        try:
            got = {k: fresh.get(k) for k in fresh}
            if got != want:
                res.violation('after check(fix=%s) beside a writer the contents are %r, expected %r' % (
                    fix, sorted((k, (v or '')[:8]) for k, v in got.items()), sorted((k, v[:8]) for k, v in want.items())), wit)
                return
            again = observed_warnings(dc, fresh.check())
            if again:
                res.violation('a check afterwards reports %r' % (again[:3],), wit)
        finally:
            fresh.close()
    finally:
        probe.set_controller(None)
        probe.set_clock(None)
        for c in (cache, checker, writer):
            try:
                c.close()
            except Exception:      # noqa: BLE001
                pass
        sc.drop(d)


def run_shard(tier, seed, shard, nshards, res):
    dc = common.use_repo()
    probe.install()
    probe.reset()
    with common.Scratch() as sc:
        # all single damages, on Cache and on a FanoutCache shard
        n = 0
        for rep in range(3 if tier == 'quick' else 12):
            for kind in KINDS:
                for fanout in (False, True):
                    n += 1
                    if n % nshards != shard:
                        continue
                    rng = common.rng_for(seed, 'c17s', n)
                    case(dc, sc, res, rng, [kind], fanout, 'c17 single %s fanout=%s rep=%d' % (kind, fanout, rep))
                    res.count('single_damage_cases')
        for i in range(80 if tier == "quick" else 600):
            rng = common.rng_for(seed, 'c17c', shard, i)
            kinds = [gen.pick(rng, KINDS) for _ in range(rng.randrange(2, 6))]
            case(dc, sc, res, rng, kinds, rng.random() < 0.3, 'c17 combo seed=%d shard=%d i=%d' % (seed, shard, i))
            res.count('combined_damage_cases')
            if res.new_violations() > 10:
                break
        probe.install()
        for i in range(12 if tier == 'quick' else 150):
            rng = common.rng_for(seed, 'c17w', shard, i)
            check_beside_a_writer(dc, sc, res, rng, 'c17 check beside a writer seed=%d shard=%d i=%d' % (seed, shard, i))
            if res.new_violations() > 10:
                return
