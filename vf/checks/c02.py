"""C02 - keys address entries by documented equality and never alias."""

import json
import os
import pickle
import pickletools

from .. import common, gen, observe, probe
from ..observe import ident

PROP = 'C02'
LEVEL = 'exploration'
RULE = ('pools of ~40 keys (str/bytes/int in and out of int64/float incl. -0.0, inf, subnormals, 2**53 and 2**63 '
        'neighbours/bool/None/tuples/frozensets/bytes equal to pickles of other keys at every protocol), each pool '
        'always salted with the near-miss table; after storing a pool the cache must equal a dict keyed by the '
        'documented identity (length, every value, membership, both iterations); designated near-miss pairs are '
        'additionally driven through every lookup flavour (set/add/touch/incr/pop/delete/del/in/get). evaluations '
        '= ordered key pairs judged; distinct_nontrivial = distinct (identity-class pair, same/different, disk, '
        'protocol) cells plus distinct (flavour, pair kind) cells')
DISTINCT = ('pair_cells', 'flavour_cells')
REQUIRED = ('flavour_cases_with_ttl', 'pools_in_a_fanout_read_through_reopened_handle', 'pools_in_a_fanout_read_through_unpickled_handle', 'pools_in_a_cache_read_through_reopened_handle', 'pools', 'pairs_equal_identity', 'pairs_distinct_identity', 'flavour_cases', 'iteration_keys_checked',
            'jsondisk_pools', 'pickle_alias_candidates', 'keys_spelled_in_another_interpreter',
            'shadow_races_with_swap_before_file_open')
ASSUMPTIONS = ('identity rule: str by code points, bytes by content, int64 and float by exact numeric value, '
               'everything else by type and structure (DESIGN.md C02)',
               'under JSONDisk identity is the JSON text; int/float unification is asserted for Disk only',
               'NaN keys are outside the domain')


def plan(tier):
    return {'nshards': 16 if tier == 'quick' else 48, 'timeout': 900 if tier == 'quick' else 3600}


def near_miss(proto):
    groups = [
        (1, 1.0, True), (0, 0.0, -0.0, False), ('a', b'a'), ('', b''),
        (2**63 - 1, 2**63, float(2**63)), (-2**63, -2**63 - 1, float(-2**63)),
        (2**53, 2**53 + 1, float(2**53)), (5e-324, 0.0, 1e-323), (float('inf'), float('-inf'), 1.7976931348623157e308),
        ('a', 'a\x00', 'a\x00b'), (None, 'None', b'None'), ((1, 2), (1.0, 2.0), (True, 2), [1, 2] and (1, (2,))),
        (frozenset([1, 2]), frozenset([1.0, 2]), (1, 2)), ('1', 1, b'1'), (10**15, float(10**15), '1000000000000000'),
    ]
    out = []
    for g in groups:
        out.extend(g)
    # bytes equal to the serialized form of other keys
    for k in (None, True, (1, 2), 2**63, ('a', None)):
        for p in sorted({proto, 0, 2, 5}):
            data = pickle.dumps(k, protocol=p)
            out.append(data)
            out.append(pickletools.optimize(data))
    return out


def twice_built(rng):
    """Structurally equal composite keys built along independent paths."""
    s1 = 'ab'
    s2 = ''.join(['a', 'b'])
    pairs = [
        ((s1, s1), (s1, s2)),
        ((2**70, 2**70), (2**70, 2**69 * 2)),
        (frozenset([0, 8]), frozenset([8, 0])),
        (frozenset(['x', 'y', 'z']), frozenset(['z', 'y', 'x'])),
        ((1, ('q', 2.5)), (1, tuple(['q', 2.5]))),
        (('k', None, b'b'), tuple(['k', None, bytes([98])])),
    ]
    return pairs


def random_keys(rng, n):
    out = []
    for _ in range(n):
        c = rng.randrange(9)
        if c == 0:
            out.append(rng.randrange(-2**64, 2**64))
        elif c == 1:
            out.append(rng.randrange(-5, 5))
        elif c == 2:
            out.append(float(rng.randrange(-5, 5)))
        elif c == 3:
            out.append(rng.choice([2**53, 2**63, 2**31, 10**15]) + rng.randrange(-2, 3))
        elif c == 4:
            out.append(float(rng.choice([2**53, 2**63, 2**31, 10**15]) + rng.randrange(-2, 3)))
        elif c == 5:
            out.append(''.join(rng.choice('ab\x00é\U0001F600') for _ in range(rng.randrange(0, 4))))
        elif c == 6:
            out.append(bytes(rng.choice(b'ab\x00\x80') for _ in range(rng.randrange(0, 4))))
        elif c == 7:
            out.append(tuple(rng.choice([1, 1.0, 'a', b'a', None, True, 2**70]) for _ in range(rng.randrange(0, 3))))
        else:
            out.append(rng.random() * 10 ** rng.randrange(-20, 20))
    return out


def id_class(k):
    i = ident(k)
    if i[0] == 'n':
        return type(k).__name__
    if i[0] == 'p':
        return 'pickled:' + type(k).__name__
    return type(k).__name__


def json_ident(k):
    return ('json', json.dumps(k))


def classify_pair(dc, proto, a, b):
    """Known finding K1: structurally equal composite keys whose pickles differ."""
    ia, ib = ident(a), ident(b)
    if ia == ib and ia[0] == 'p':
        pa = pickletools.optimize(pickle.dumps(a, protocol=proto))
        pb = pickletools.optimize(pickle.dumps(b, protocol=proto))
        if pa != pb:
            return 'composite-key-equal-structure-different-pickle'
    return None


def check_pool(dc, sc, res, rng, proto, disk_name, keys, label):
    jsond = disk_name == 'JSONDisk'
    idf = json_ident if jsond else ident
    d = sc.new()
    settings = {'disk_pickle_protocol': proto}
    if jsond:
        settings['disk'] = dc.JSONDisk
    # the container and the handles are dimensions: a plain or a sharded cache; keys are stored through the handle that
    # created the cache (with its settings) and through a second one - the same object, one reopened without repeating
    # the settings, or an unpickled copy - and looked up through the second one.  (In a sharded cache an int and the
    # float equal to it are routed by their type - known finding K2 of C13 - so such twins are left out there.)
    container = rng.choice(['cache', 'cache', 'fanout'])
    second = rng.choice(['same', 'reopened', 'unpickled'])
    disk_kw = {'disk': dc.JSONDisk} if jsond else {}
    if container == 'fanout':
        nshards = rng.choice([2, 3, 8])
        keys = [k for k in keys if not (type(k) is float and (k == int(k) if k == k and abs(k) != float('inf') else False))]
        first = dc.FanoutCache(d, shards=nshards, **settings)
        reopen = lambda: dc.FanoutCache(d, shards=nshards, **disk_kw)      # noqa: E731
    else:
        first = dc.Cache(d, **settings)
        reopen = lambda: dc.Cache(d, **disk_kw)      # noqa: E731
    cache = first if second == 'same' else reopen() if second == 'reopened' else pickle.loads(pickle.dumps(first))
    res.count('pools_in_a_%s_read_through_%s_handle' % (container, second))
    ref = {}
    try:
        for n, k in enumerate(keys):
            try:
                (first if n % 2 else cache).set(k, n, expire=None if n % 3 else 3600)
            except Exception as exc:      # noqa: BLE001
                res.violation('set(%r) raised %s' % (k, type(exc).__name__), {'label': label, 'key': k})
                continue
            e = ref.setdefault(idf(k), {'keys': []})
            e['keys'].append(k)
            e['value'] = n
        res.count('pools')
        if jsond:
            res.count('jsondisk_pools')
        # whole-cache comparison
        if len(cache) != len(ref):
            # find a witness pair
            stored = []
            for sd in ([d] if container == 'cache' else [os.path.join(d, '%03d' % i) for i in range(nshards)]):
                rows = observe.Observer(sd)
                try:
                    stored += [(observe.row_key(r['key'], r['raw']) if not jsond else None) for r in rows.rows()]
                finally:
                    rows.close()
            sig = None
            wit = {'label': label, 'len_cache': len(cache), 'len_reference': len(ref), 'protocol': proto, 'disk': disk_name}
            if not jsond:
                byid = {}
                for sk in stored:
                    byid.setdefault(ident(sk), []).append(sk)
                dup = [v for v in byid.values() if len(v) > 1]
                wit['equal_keys_in_separate_entries'] = dup[:5]
                if dup and all(classify_pair(dc, proto, v[0], v[1]) for v in dup):
                    sig = 'composite-key-equal-structure-different-pickle'
            res.violation('cache holds %d entries for %d distinct identities' % (len(cache), len(ref)), wit, signature=sig)
        for k in keys:
            res.count('evaluations')
            e = ref.get(idf(k))
            if e is None:
                continue
            got = cache.get(k, 'MISSING')
            if got != e['value']:
                other = [x for x in keys if cache_value_owner(ref, idf, x) == got][:3]
                sig = None
                if not jsond:
                    cands = [x for x in e['keys'] if x is not k]
                    if cands and all(classify_pair(dc, proto, k, x) for x in cands) and ident(k)[0] == 'p':
                        sig = 'composite-key-equal-structure-different-pickle'
                res.violation('lookup of %r returned %r, the identity owns %r' % (k, got, e['value']),
                              {'label': label, 'key': k, 'same_identity_keys': e['keys'], 'value_belongs_to': other,
                               'protocol': proto, 'disk': disk_name}, signature=sig)
            if (k in cache) is not True:
                res.violation('%r stored but "in" says absent' % (k,), {'label': label, 'key': k})
        # pair statistics (all ordered pairs share the verdict of the whole-cache comparison)
        for i, a in enumerate(keys):
            for b in keys[i + 1:]:
                same_id = idf(a) == idf(b)
                res.count('pairs_equal_identity' if same_id else 'pairs_distinct_identity')
                res.count('evaluations')
                res.seen('pair_cells', (id_class(a), id_class(b), same_id, disk_name, proto))
                if not same_id and isinstance(a, bytes) != isinstance(b, bytes):
                    res.count('pickle_alias_candidates')
        # iteration
        for name, it in ((('iter', list(cache)), ('reversed', list(reversed(cache)))) + ((
                ('iterkeys', list(cache.iterkeys())), ('iterkeys_rev', list(cache.iterkeys(reverse=True))))
                if container == 'cache' else ())):
            seen = set()
            for k in it:
                res.count('iteration_keys_checked')
                try:
                    i = idf(k)
                except TypeError:
                    i = ('unhashable', repr(k))
                e = ref.get(i)
                if e is None:
                    res.violation('%s yielded %r, which was never stored' % (name, k), {'label': label, 'key': k})
                    continue
                if i in seen:
                    sig = None
                    if not jsond and i[0] == 'p' and len(e['keys']) > 1 and any(
                            classify_pair(dc, proto, e['keys'][0], x) for x in e['keys'][1:]):
                        sig = 'composite-key-equal-structure-different-pickle'
                    res.violation('%s yielded identity of %r twice' % (name, k),
                                  {'label': label, 'key': k, 'stored_under_identity': e['keys']}, signature=sig)
                seen.add(i)
                if not any(type(k) is type(s) and (k == s) for s in e['keys']):
                    res.violation('%s yielded %r (%s); stored under that identity: %r' % (
                        name, k, type(k).__name__, e['keys']), {'label': label, 'key': k, 'stored': e['keys']})
            if seen != set(ref):
                missing = [ref[i]['keys'][0] for i in ref if i not in seen]
                res.violation('%s yielded %d of %d stored identities; never yielded: %r' % (name, len(seen), len(ref), missing[:5]),
                              {'label': label, 'missing': missing[:10]})
    finally:
        cache.close()
        first.close()
        sc.drop(d)


def cache_value_owner(ref, idf, k):
    e = ref.get(idf(k))
    return e['value'] if e else None


FLAVOURS = ['set', 'add', 'touch', 'incr', 'pop', 'delete', 'delitem', 'contains', 'get', 'getitem', 'setitem']


def check_flavours(dc, sc, res, rng, proto, a, b, label):
    """a is stored; b is used in every lookup flavour."""
    same_id = ident(a) == ident(b)
    sig = classify_pair(dc, proto, a, b)
    for fl in FLAVOURS:
        d = sc.new()
        cache = dc.Cache(d, disk_pickle_protocol=proto)
        try:
            # (the stored entry carries a time-to-live that is far from over in half of the cases: how long an entry
            # lives has nothing to do with which key addresses it)
            ttl = 3600 if rng.random() < 0.5 else None
            cache.set(a, 10, tag='ta', expire=ttl)
            res.count('flavour_cases_with_ttl' if ttl else 'flavour_cases_without_ttl')
            res.count('flavour_cases')
            res.count('evaluations')
            res.seen('flavour_cells', (fl, id_class(a), id_class(b), same_id))
            exp_a = 10          # value expected under a afterwards (None = absent)
            exp_len = 1
            got = None
            if fl == 'set':
                cache.set(b, 20)
                exp_a, exp_len = (20, 1) if same_id else (10, 2)
            elif fl == 'setitem':
                cache[b] = 20
                exp_a, exp_len = (20, 1) if same_id else (10, 2)
            elif fl == 'add':
                got = cache.add(b, 20)
                ok = got is (not same_id)
                exp_len = 1 if same_id else 2
            elif fl == 'touch':
                got = cache.touch(b, 100)
                ok = got is same_id
            elif fl == 'incr':
                got = cache.incr(b, 5, default=100)
                ok = got == (15 if same_id else 105)
                exp_a, exp_len = (15, 1) if same_id else (10, 2)
            elif fl == 'pop':
                got = cache.pop(b, 'D')
                ok = got == (10 if same_id else 'D')
                exp_a, exp_len = (None, 0) if same_id else (10, 1)
            elif fl == 'delete':
                got = cache.delete(b)
                ok = got is same_id
                exp_a, exp_len = (None, 0) if same_id else (10, 1)
            elif fl == 'delitem':
                try:
                    del cache[b]
                    got = 'deleted'
                except KeyError:
                    got = 'KeyError'
                ok = got == ('deleted' if same_id else 'KeyError')
                exp_a, exp_len = (None, 0) if same_id else (10, 1)
            elif fl == 'contains':
                got = b in cache
                ok = got is same_id
            elif fl == 'get':
                got = cache.get(b, 'D', tag=True)
                ok = got == ((10, 'ta') if same_id else ('D', None))
            elif fl == 'getitem':
                try:
                    got = cache[b]
                except KeyError:
                    got = 'KeyError'
                ok = got == (10 if same_id else 'KeyError')
            if fl in ('set', 'setitem'):
                ok = True
            now_a = cache.get(a)
            if not ok or now_a != exp_a or len(cache) != exp_len:
                res.violation(
                    '%s(%r) after set(%r): result %r, value under first key %r (expected %r), len %d (expected %d); '
                    'keys are %s under the documented rule' % (fl, b, a, got, now_a, exp_a, len(cache), exp_len,
                                                               'ONE key' if same_id else 'DIFFERENT keys'),
                    {'label': label, 'a': a, 'b': b, 'flavour': fl, 'protocol': proto}, signature=sig)
        except Exception as exc:          # noqa: BLE001
            res.violation('%s(%r) after set(%r) raised %s: %s' % (fl, b, a, type(exc).__name__, exc),
                          {'label': label, 'a': a, 'b': b, 'flavour': fl, 'protocol': proto})
        finally:
            cache.close()
            sc.drop(d)


def shadow_race(dc, sc, res, rng, label):
    """Distinct keys never shadow each other, also while they come and go: a lookup of A that overlaps 'remove A, store
    B' by another client answers with A's value or with a miss - never with B's value.  The adversarial schedule lets
    the other client finish right before the reader opens A's value file."""
    from ..sched import Recorder, Sched
    pairs = [('name', b'name'), (1, (1,)), (2**64, pickletools.optimize(pickle.dumps(2**64, protocol=pickle.HIGHEST_PROTOCOL))),
             ((1, 2), (1.0, 2.0)), ('a', 'a\x00'), (None, 'None'), (0, False), ('k1', 'k2')]
    a, b = pairs[rng.randrange(len(pairs))]
    if rng.random() < 0.5:
        a, b = b, a
    d = sc.new()
    clock = probe.set_clock(probe.VClock())
    setup = dc.Cache(d, disk_min_file_size=64, timeout=0)
    va, vb = 'value-of-A;' * 20, 'value-of-B;' * 20
    for i in range(rng.randrange(0, 3)):
        setup.set('filler-%d' % i, i)
    setup.set(a, va)                                   # the newest row
    reader, writer = dc.Cache(d, timeout=0), dc.Cache(d, timeout=0)
    how = rng.choice(['get', 'getitem', 'read', 'index'])
    sch = Sched(rng, clock, strategy='chase', victims=[0], chase_label='pre:fopen')
    rec = Recorder(sch)
    out = {}

    def look():
        if how == 'get':
            out['got'] = reader.get(a, 'MISS')
        elif how == 'getitem':
            try:
                out['got'] = reader[a]
            except KeyError:
                out['got'] = 'MISS'
        elif how == 'read':
            try:
                with reader.read(a) as f:
                    out['got'] = f.read().decode() if hasattr(f, 'read') else f
            except KeyError:
                out['got'] = 'MISS'
        else:
            try:
                out['got'] = dc.Index.fromcache(reader)[a]
            except KeyError:
                out['got'] = 'MISS'

    def swap():
        del writer[a]
        writer[b] = vb
    try:
        ok = sch.run([lambda: rec.call(0, how, (a,), look), lambda: rec.call(1, 'swap', (a, b), swap)])
        probe.set_controller(None)
        wit = {'label': label, 'A': a, 'B': b, 'lookup': how, 'other_client_ran_in_front_of_the_file_open': sch.chases}
        if sch.errors() or not ok:
            res.violation('lookup racing with delete/insert did not complete: %s' % (sch.errors()[:1],), wit)
            return
        res.count('evaluations')
        res.count('shadow_races')
        if sch.chases:
            res.count('shadow_races_with_swap_before_file_open')
        got = out.get('got')
        if got not in (va, 'MISS'):
            res.violation('a lookup of %r returned %r - the value stored under the different key %r' % (a, str(got)[:24], b), wit)
    finally:
        probe.set_controller(None)
        probe.set_clock(None)
        for c in (setup, reader, writer):
            try:
                c.close()
            except Exception:      # noqa: BLE001
                pass
        sc.drop(d)


def run_shard(tier, seed, shard, nshards, res):
    dc = common.use_repo()
    probe.install()
    n_pools = 12 if tier == 'quick' else 120
    with common.Scratch() as sc:
        for i in range(n_pools):
            rng = common.rng_for(seed, 'c02', shard, i)
            proto = (shard + i) % 6
            label = 'c02 seed=%d shard=%d pool=%d proto=%d' % (seed, shard, i, proto)
            if i % 4 == 3:
                keys = ['a', '', 'a\x00', 1, 1.5, -0.0, 0.0, 2**70, None, True, False, [1, 2], [1.0, 2], ['a', None],
                        '1', 'null', 'true', 1e16, 10**16, float('inf'), 5e-324, [], [[]], '[]']
                keys += [k for k in random_keys(rng, 12) if not isinstance(k, (bytes, tuple))]
                rng.shuffle(keys)
                check_pool(dc, sc, res, rng, proto, 'JSONDisk', keys, label)
                continue
            keys = near_miss(proto) + random_keys(rng, 25)
            if i % 3 == 0:
                for x, y in twice_built(rng):
                    keys.extend([x, y])
            rng.shuffle(keys)
            keys = keys[:70] if i % 2 else keys
            check_pool(dc, sc, res, rng, proto, 'Disk', keys, label)
            if len(res.samples) < 2:
                res.sample({'label': label, 'keys': keys[:25]})
        # equal keys spelled in another interpreter (other hash seed, fresh objects) address the same entries, through a
        # plain and through a sharded cache; pools without K1/K2 material (no sets, no int/float twins)
        from . import c13
        rng = common.rng_for(seed, 'c02x', shard)
        pool = ['a', '', 'a\x00b', 'é', b'a', b'', 0, -1, 2**63 - 1, -2**63, 2**63, 2**70, None, True, False,
                ('a', 1), (1, (2, (None, b'x'))), ('a', ('b', 'c')), 1.5, 1e300]
        pool += [k for k in random_keys(rng, 25) if not isinstance(k, (frozenset, set, float))]
        seen_ids, keys = set(), []
        for k in pool:
            if ident(k) not in seen_ids and not (isinstance(k, tuple) and any(isinstance(x, (frozenset, set)) for x in k)):
                seen_ids.add(ident(k))
                keys.append(k)
        before = res.counters.get('keys_cross_process', 0)
        c13.cross_process(dc, sc, res, rng, [1, 8, 3][shard % 3], ('random', 0),
                          'c02 across interpreters seed=%d shard=%d' % (seed, shard), keys=keys)
        res.count('keys_spelled_in_another_interpreter', res.counters.get('keys_cross_process', 0) - before)
        for i in range(10 if tier == 'quick' else 120):
            rng = common.rng_for(seed, 'c02r', shard, i)
            shadow_race(dc, sc, res, rng, 'c02 shadow race seed=%d shard=%d i=%d' % (seed, shard, i))
        probe.install()
        # a key and the bytes equal to its serialized form sitting exactly on the page boundaries of sorted iteration
        # (first row is fetched alone, then pages of 100), in both directions
        for proto in sorted({shard % 6, (shard + 3) % 6}):
            for k in (None, (1, 2), True, 2**70):
                alias = pickletools.optimize(pickle.dumps(k, protocol=proto))
                for n_before, n_after in ((0, 0), (0, 3), (99, 0), (100, 0), (101, 2), (3, 100), (2, 99)):
                    keys = list(range(n_before)) + [k, alias] + [alias + b'\xff' + bytes([i]) for i in range(n_after)]
                    rng.shuffle(keys)
                    check_pool(dc, sc, res, rng, proto, 'Disk', keys,
                               'c02 boundary proto=%d key=%r before=%d after=%d' % (proto, k, n_before, n_after))
        # designated pairs through every lookup flavour
        rng = common.rng_for(seed, 'c02f', shard)
        proto = shard % 6
        nm = near_miss(proto)
        pairs = []
        groups = [(1, 1.0), (1, True), (0, -0.0), (0.0, -0.0), (0, False), ('a', b'a'), ('', b''),
                  (2**63 - 1, float(2**63)), (2**63, float(2**63)), (2**53, float(2**53)), (2**53 + 1, float(2**53)),
                  ('a', 'a\x00'), (None, 'None'), ((1, 2), (1.0, 2.0)), ((1, 2), (True, 2)), (-2**63, float(-2**63)),
                  (10**15 + 1, float(10**15 + 1)), (5e-324, 0.0), (2**63, 2**63 + 1), (-2**63 - 1, -2**63)]
        for k in (None, True, (1, 2), 2**63):
            data = pickle.dumps(k, protocol=proto)
            groups.append((k, data))
            groups.append((k, pickletools.optimize(data)))
        groups.extend(twice_built(rng))
        for j, (a, b) in enumerate(groups):
            if j % nshards != shard and tier == 'quick' and (j + 7) % nshards != shard:
                continue
            pairs.append((a, b))
            pairs.append((b, a))
        extra = random_keys(rng, 6 if tier == 'quick' else 40)
        for a in extra:
            b = rng.choice(nm)
            pairs.append((a, b))
        for a, b in pairs:
            check_flavours(dc, sc, res, rng, proto, a, b, 'c02 flavours seed=%d shard=%d' % (seed, shard))
