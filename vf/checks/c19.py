"""C19 - DjangoCache honours the Django cache-backend contract."""

from .. import common, gen, probe
from ..observe import same as _same


def same(got, exp):
    """Type-exact equality; an expiry instant (float) may differ by the few clock ticks of the call itself."""
    if isinstance(got, tuple) and isinstance(exp, tuple) and len(got) == len(exp) and len(got) in (2, 3) \
            and any(isinstance(x, float) for x in exp[1:]):
        return all((abs(g - e) < 1e-3 if isinstance(e, float) and isinstance(g, float) else _same(g, e)) for g, e in zip(got, exp))
    return _same(got, exp)

PROP = 'C19'
LEVEL = 'exploration'
RULE = ('histories of 100-600 DjangoCache calls (add, get, set, touch, delete, incr, decr, has_key, get_many, set_many, '
        'delete_many, get_or_set with plain and callable defaults, incr_version/decr_version, pop, clear, in) over 6 keys '
        'x versions {None,1,2,3} x timeouts {omitted, None, 0, -1, 0.5, 5.5, 1e3} with clock jumps, for backend '
        'parameters TIMEOUT in {300, None, 2, 0} x KEY_PREFIX in {"", "p"} x VERSION in {1,2} x SHARDS in {1,3,8}, '
        'compared call by call with a reference dictionary keyed by "prefix:version:key" that implements the contract '
        'under the virtual clock; at the end every (key, version) is read back. evaluations = calls judged; '
        'distinct_nontrivial = distinct (operation, timeout class, key state, outcome, backend parameters) cells')
DISTINCT = ('cells',)
REQUIRED = ('calls_judged', 'histories', 'value_errors_matched', 'expired_lookups', 'default_timeout_applied',
            'version_moves', 'callable_defaults', 'forever_items_after_long_jump', 'lookups_with_expire_time_or_tag',
            'calls_with_positional_version', 'calls_with_positional_arguments', 'calls_with_tuple_keys', 'calls_with_explicit_retry', 'contended_call_schedules')
ASSUMPTIONS = ('Django itself casts the TIMEOUT parameter to int (BaseCache.__init__), so a short integer TIMEOUT is used',
               'return values the contract leaves open (set, clear) are not compared',
               'DjangoCache(directory, params) is instantiated directly (needs no configured Django settings)')

TICK = gen.TICK
TIMEOUTS = ['omitted', None, 0, -1, gen.ttl_exact(0.5), gen.ttl_exact(5.5), gen.ttl_exact(1e3)]


def plan(tier):
    return {'nshards': 16 if tier == 'quick' else 48, 'timeout': 900 if tier == 'quick' else 3600}


class RefDjango:
    def __init__(self, prefix, version, default_timeout):
        self.prefix = prefix
        self.version = version
        self.default_timeout = default_timeout
        self.d = {}
        self.now = 0.0
        self.spelled = {}

    def fk(self, key, version):
        v = self.version if version is None else version
        out = '%s:%s:%s' % (self.prefix, v, key)
        self.spelled.setdefault(out, (key, v))       # one spelling of (key, version) that prints as this namespaced key
        return out

    def ttl(self, timeout):
        if timeout == 'omitted':
            timeout = self.default_timeout
        if timeout is None:
            return None
        if timeout == 0:
            return -1
        return timeout

    def live(self, fk):
        it = self.d.get(fk)
        if it is None:
            return None
        if it[1] is not None and it[1] <= self.now:
            return None
        return it

    def put(self, fk, value, timeout, tag=None):
        t = self.ttl(timeout)
        self.d[fk] = (value, None if t is None else self.now + t, tag)

    @staticmethod
    def shaped(it, default, expire_time, tag):
        """What get / pop hand back when the expiry instant and / or the tag are asked for as well."""
        out = (default if it is None else it[0],)
        if expire_time:
            out += (None if it is None else it[1],)
        if tag:
            out += (None if it is None else it[2],)
        return out if len(out) > 1 else out[0]

    def add(self, key, value, timeout='omitted', version=None, tag=None):
        fk = self.fk(key, version)
        if self.live(fk) is not None:
            return False
        self.put(fk, value, timeout, tag)
        return True

    def get(self, key, default=None, version=None, expire_time=False, tag=False):
        return self.shaped(self.live(self.fk(key, version)), default, expire_time, tag)

    def set(self, key, value, timeout='omitted', version=None, tag=None):
        self.put(self.fk(key, version), value, timeout, tag)

    def touch(self, key, timeout='omitted', version=None):
        fk = self.fk(key, version)
        it = self.live(fk)
        if it is None:
            return False
        self.put(fk, it[0], timeout, it[2])           # the tag stays
        return True

    def delete(self, key, version=None):
        fk = self.fk(key, version)
        it = self.live(fk)
        if it is None:
            return False
        del self.d[fk]
        return True

    def incr(self, key, delta=1, version=None):
        fk = self.fk(key, version)
        it = self.live(fk)
        if it is None:
            return ValueError
        self.d[fk] = (it[0] + delta, it[1], it[2])
        return it[0] + delta

    def decr(self, key, delta=1, version=None):
        return self.incr(key, -delta, version)

    def has_key(self, key, version=None):
        return self.live(self.fk(key, version)) is not None

    def get_many(self, keys, version=None):
        out = {}
        for k in keys:
            it = self.live(self.fk(k, version))
            if it is not None:
                out[k] = it[0]
        return out

    def set_many(self, data, timeout='omitted', version=None):
        for k, v in data.items():
            self.set(k, v, timeout, version)
        return []

    def delete_many(self, keys, version=None):
        for k in keys:
            self.delete(k, version)

    def get_or_set(self, key, default, timeout='omitted', version=None):
        it = self.live(self.fk(key, version))
        if it is not None:
            return it[0]
        if callable(default):
            default = default()
        self.add(key, default, timeout, version)
        return self.get(key, default, version)

    def incr_version(self, key, delta=1, version=None):
        v = self.version if version is None else version
        it = self.live(self.fk(key, v))
        if it is None:
            return ValueError
        self.set(key, it[0], 'omitted', v + delta)
        self.delete(key, v)
        return v + delta

    def decr_version(self, key, delta=1, version=None):
        return self.incr_version(key, -delta, version)

    def pop(self, key, default=None, version=None, expire_time=False, tag=False):
        fk = self.fk(key, version)
        it = self.live(fk)
        if it is not None:
            del self.d[fk]
        return self.shaped(it, default, expire_time, tag)

    def clear(self):
        self.d.clear()

    def evict(self, tag):
        gone = [fk for fk, it in self.d.items() if it[2] is not None and type(it[2]) is type(tag) and it[2] == tag]
        for fk in gone:
            del self.d[fk]
        return len(gone)

    def expire(self):
        gone = [fk for fk, it in self.d.items() if it[1] is not None and it[1] < self.now]
        for fk in gone:
            del self.d[fk]
        return len(gone)


OMIT = object()


def spelled(rng, res, method, params, **extensions):
    """Call a backend method the way Django's BaseCache declares it: `params` lists (name, value) in the order of the
    BaseCache signature (value OMIT: not given); a random prefix of the given ones is passed positionally, the rest by
    keyword.  The library's own extra parameters (tag, expire_time, ...) come by keyword."""
    cut = 0
    while cut < len(params) and params[cut][1] is not OMIT:
        cut += 1
    p = rng.randrange(1, cut + 1)
    pos = [v for _, v in params[:p]]
    kw = {n: v for n, v in params[p:] if v is not OMIT}
    if any(n == 'version' for n, _ in params[:p]):
        res.count('calls_with_positional_version')
    if p > 1:
        res.count('calls_with_positional_arguments')
    if getattr(method, '__name__', '') in ('add', 'get', 'set', 'touch', 'delete', 'incr', 'decr', 'pop') and rng.random() < 0.2:
        # diskcache's `retry` extension: wait for a busy database or report failure - nobody else writes here, so either
        # value must leave the outcome alone
        extensions = dict(extensions, retry=rng.random() < 0.5)
        res.count('calls_with_explicit_retry')
    return method(*pos, **kw, **extensions)


def history(dc, sc, res, rng, params, label):
    from diskcache import DjangoCache
    d = sc.new()
    clock = probe.set_clock(probe.VClock())
    dj = DjangoCache(d, dict(params, OPTIONS={'disk_min_file_size': 64}))
    ref = RefDjango(params['KEY_PREFIX'], params['VERSION'], params['TIMEOUT'])
    # keys and versions are namespaced by how they print: 1, True, 1.0 and '1' are four keys (and == to each other)
    # (tuple keys are what DjangoCache.memoize itself sends through get / set; they print like any other key)
    keys = ['k1', 'k2', 'n1', 'n2', 'a b', 'ü', 1, True, 1.0, '1', 0, False, ('n', 42), (), ('a', 'b', 'c'), ('n',)]
    versions = [None, None, None, 1, 2, 3, 1, 2, True, 1.0, 0, 0]           # 0 is a version like any other (and falsy)
    hist = []
    pcell = (params['TIMEOUT'], params['KEY_PREFIX'], params['VERSION'], params['SHARDS'])

    def tmo_kw(t):
        return {} if t == 'omitted' else {'timeout': t}

    def tclass(t):
        return t if t in ('omitted', None, 0, -1) else 'positive'

    try:
        for step in range(rng.randrange(100, 400)):
            # keep expiry instants away from the clock reads of the next call
            now = clock.now_peek()
            near = [e for _, e, _tag in ref.d.values() if e is not None and now - 80 * TICK <= e <= now + 200 * TICK]
            if near:
                clock.advance(max(near) - now + 300 * TICK)
            if rng.random() < 0.12:
                jump = gen.pick(rng, [0.3, 1.0, 4.0, 10.0, 400.0, 5000.0])
                clock.advance(jump)
                hist.append(('ADV', jump))
                continue
            k = gen.pick(rng, keys)
            ver = gen.pick(rng, versions)
            t = gen.pick(rng, TIMEOUTS)
            vkw = {} if ver is None else {'version': ver}
            V = OMIT if ver is None else ver
            if t == 'omitted':
                # leaving the timeout out and handing over Django's DEFAULT_TIMEOUT marker are the same request
                from django.core.cache.backends.base import DEFAULT_TIMEOUT
                TM = DEFAULT_TIMEOUT if rng.random() < 0.3 else OMIT
            else:
                TM = t
            op = gen.pick(rng, ['add', 'get', 'get', 'set', 'set', 'touch', 'delete', 'incr', 'decr', 'has_key', 'get_many',
                                'set_many', 'delete_many', 'get_or_set', 'get_or_set_callable', 'incr_version',
                                'decr_version', 'pop', 'contains', 'clear', 'evict', 'expire'])
            numeric = (isinstance(k, str) and k.startswith('n')) or (isinstance(k, tuple) and k[:1] == ('n',))
            if isinstance(k, tuple):
                res.count('calls_with_tuple_keys')
            val = rng.randrange(100) if numeric else gen.pick(rng, ['v%d' % step, 'L' * 100, ('t', step), None, 0])
            ref.now = clock.now_peek()
            state = 'live' if ref.live(ref.fk(k, ver)) is not None else ('expired' if ref.fk(k, ver) in ref.d else 'absent')
            if state == 'expired':
                res.count('expired_lookups')
            if op == 'add':
                tg = gen.pick(rng, [None, None, 'blue', 0])
                tkw = {} if tg is None else {'tag': tg}
                got, exp = call(lambda: spelled(rng, res, dj.add, [('key', k), ('value', val), ('timeout', TM), ('version', V)], **tkw)), ref.add(k, val, t, ver, tg)
            elif op == 'get':
                flags = {f: True for f in ('expire_time', 'tag') if rng.random() < 0.25}
                got, exp = call(lambda: spelled(rng, res, dj.get, [('key', k), ('default', 'DEF'), ('version', V)], **flags)), ref.get(k, 'DEF', ver, **flags)
                res.count('lookups_with_expire_time_or_tag', 1 if flags else 0)
            elif op == 'set':
                tg = gen.pick(rng, [None, None, 'blue', 't2', 0])
                tkw = {} if tg is None else {'tag': tg}
                got, exp = drop(call(lambda: spelled(rng, res, dj.set, [('key', k), ('value', val), ('timeout', TM), ('version', V)], **tkw))), ('skip', ref.set(k, val, t, ver, tg))
            elif op == 'touch':
                got, exp = call(lambda: spelled(rng, res, dj.touch, [('key', k), ('timeout', TM), ('version', V)])), ref.touch(k, t, ver)
            elif op == 'delete':
                got, exp = call(lambda: spelled(rng, res, dj.delete, [('key', k), ('version', V)])), ref.delete(k, ver)
            elif op in ('incr', 'decr'):
                if not numeric:
                    continue
                delta = gen.pick(rng, [1, 2, 10])
                got, exp = call(lambda: spelled(rng, res, getattr(dj, op), [('key', k), ('delta', delta), ('version', V)])), getattr(ref, op)(k, delta, ver)
            elif op == 'has_key':
                got, exp = call(lambda: spelled(rng, res, dj.has_key, [('key', k), ('version', V)])), ref.has_key(k, ver)
            elif op == 'contains':
                got, exp = call(lambda: k in dj), ref.has_key(k, None)
            elif op == 'get_many':
                ks = rng.sample(keys, rng.randrange(1, 4))
                got, exp = call(lambda: spelled(rng, res, dj.get_many, [('keys', ks), ('version', V)])), ref.get_many(ks, ver)
            elif op == 'set_many':
                data = {kk: (rng.randrange(50) if (isinstance(kk, str) and kk.startswith('n')) or (isinstance(kk, tuple) and kk[:1] == ('n',))
                             else 'm%d' % step) for kk in rng.sample(keys, rng.randrange(1, 4))}
                got, exp = call(lambda: spelled(rng, res, dj.set_many, [('data', data), ('timeout', TM), ('version', V)])), ref.set_many(data, t, ver)
            elif op == 'delete_many':
                ks = rng.sample(keys, rng.randrange(1, 4))
                got, exp = drop(call(lambda: spelled(rng, res, dj.delete_many, [('keys', ks), ('version', V)]))), ('skip', ref.delete_many(ks, ver))
            elif op == 'get_or_set':
                got, exp = call(lambda: spelled(rng, res, dj.get_or_set, [('key', k), ('default', val), ('timeout', TM), ('version', V)])), ref.get_or_set(k, val, t, ver)
            elif op == 'get_or_set_callable':
                res.count('callable_defaults')
                got, exp = call(lambda: spelled(rng, res, dj.get_or_set, [('key', k), ('default', lambda: val), ('timeout', TM), ('version', V)])), ref.get_or_set(k, lambda: val, t, ver)
            elif op in ('incr_version', 'decr_version'):
                base = params['VERSION'] if ver is None else ver
                if op == 'decr_version' and base <= 0:
                    continue
                if isinstance(k, tuple):
                    # incr_version is Django's own BaseCache code; its error message formats the key with %, which
                    # fails for tuples before diskcache is involved - the contract is about text keys there
                    continue
                got, exp = call(lambda: spelled(rng, res, getattr(dj, op), [('key', k), ('delta', 1 if rng.random() < 0.4 else OMIT), ('version', V)])), getattr(ref, op)(k, 1, ver)
                if exp is not ValueError:
                    res.count('version_moves')
            elif op == 'pop':
                flags = {f: True for f in ('expire_time', 'tag') if rng.random() < 0.3}
                got, exp = call(lambda: spelled(rng, res, dj.pop, [('key', k), ('default', 'DEF'), ('version', V)], **flags)), ref.pop(k, 'DEF', ver, **flags)
                res.count('lookups_with_expire_time_or_tag', 1 if flags else 0)
            elif op in ('evict', 'expire'):
                # counts: expired items may already have been culled by earlier writes, so the number removed is at most
                # what the reference (which never culls) removes; live tagged items are all counted
                if op == 'evict':
                    tg = gen.pick(rng, ['blue', 't2', 0, 'nobody'])
                    live = sum(1 for fk, it in ref.d.items() if ref.live(fk) is not None and it[2] is not None
                               and type(it[2]) is type(tg) and it[2] == tg)
                    got, most = call(lambda: dj.evict(tg)), ref.evict(tg)
                    res.count('evictions_by_tag')
                else:
                    live = 0
                    got, most = call(lambda: dj.expire()), ref.expire()
                res.count('evaluations')
                if got[0] != 'ok' or type(got[1]) is not int or not (live <= got[1] <= most):
                    return res.violation('%s removed %r items, expected between %d and %d' % (op, got, live, most),
                                         {'label': label, 'params': params, 'history_tail': hist[-20:]})
                hist.append((op, got))
                continue
            else:
                if rng.random() < 0.8:
                    continue
                got, exp = drop(call(lambda: dj.clear())), ('skip', ref.clear())
            hist.append((op, k, ver, t if op in ('add', 'set', 'touch', 'set_many', 'get_or_set', 'get_or_set_callable') else '-', got))
            res.count('calls_judged')
            res.count('evaluations')
            if t == 'omitted' and op in ('add', 'set', 'touch', 'set_many', 'get_or_set'):
                res.count('default_timeout_applied')
            oc = got[1] if got[0] == 'raise' else type(got[1]).__name__
            res.seen('cells', (op, tclass(t), state, oc, pcell))
            if isinstance(exp, tuple) and exp and exp[0] == 'skip':
                if got[0] == 'raise':
                    return res.violation('%s raised %s' % (op, got[1]), {'label': label, 'params': params, 'history_tail': hist[-20:]})
                continue
            if exp is ValueError:
                if got != ('raise', 'ValueError'):
                    return res.violation('%s(%r, version=%r) on a %s key must raise ValueError, got %r' % (op, k, ver, state, got),
                                         {'label': label, 'params': params, 'history_tail': hist[-20:]})
                res.count('value_errors_matched')
                continue
            if got[0] != 'ok' or not same(got[1], exp):
                return res.violation('%s(%r, version=%r, timeout=%r) on a %s key returned %r, the contract says %r' % (
                    op, k, ver, t, state, got, exp), {'label': label, 'params': params, 'history_tail': hist[-20:]})
        # a long jump: items without expiry survive, everything else is gone
        clock.advance(2e9)
        ref.now = clock.now_peek()
        for fk_, (v, e, _tag) in list(ref.d.items()):
            key, ver = ref.spelled[fk_]
            got = call(lambda: dj.get(key, 'DEF', version=ver))
            exp = v if e is None else 'DEF'
            if e is None:
                res.count('forever_items_after_long_jump')
            res.count('evaluations')
            if got[0] != 'ok' or not same(got[1], exp):
                return res.violation('after a jump of 63 years get(%r, version=%s) returned %r, expected %r' % (key, ver, got, exp),
                                     {'label': label, 'params': params})
        res.count('histories')
        if len(res.samples) < 2:
            res.sample({'label': label, 'params': params, 'history_head': hist[:12]})
    finally:
        dj.close()
        sc.drop(d)


def drop(outcome):
    return ('ok', None) if outcome[0] == 'ok' else outcome


def call(fn):
    try:
        return ('ok', fn())
    except Exception as exc:       # noqa: BLE001
        return ('raise', type(exc).__name__)


def contended_calls(dc, sc, res, rng, params, label):
    """The calls whose contract is about winning - add (stores only if the key is absent), incr / decr (no update is
    lost), pop and delete (one caller gets the item) - made by several threads at once through one backend object or
    through one object per thread: exactly one add succeeds, the increments add up, one pop / delete succeeds."""
    from diskcache import DjangoCache
    from ..sched import Sched, Recorder
    d = sc.new()
    clock = probe.set_clock(probe.VClock())
    options = {'disk_min_file_size': 64}
    if rng.random() < 0.4:
        # lookups that keep books (statistics, access order) are write transactions inside the library
        options.update(rng.choice([{'statistics': True}, {'eviction_policy': 'least-recently-used'},
                                   {'eviction_policy': 'least-frequently-used'}]))
    p = dict(params, DATABASE_TIMEOUT=0, OPTIONS=options)
    shared = rng.random() < 0.5
    base = DjangoCache(d, p)
    n = rng.randrange(2, 4)
    backends = [base if shared else DjangoCache(d, p) for _ in range(n)]
    what = rng.choice(['add', 'add', 'add expired', 'incr', 'pop', 'delete', 'has_key', 'has_key'])
    ver = rng.choice([None, 2])
    vkw = {} if ver is None else {'version': ver}
    key = rng.choice(['k', 'a b', ('t', 1)])
    if what == 'add expired':
        base.set(key, 'old', timeout=5, **vkw)
        clock.advance(60.0)
    elif what == 'incr':
        base.set(key, 10, timeout=None, **vkw)
    elif what in ('pop', 'delete', 'has_key'):
        base.set(key, 'L' * 100, timeout=None, **vkw)
    sch = Sched(rng, clock, strategy=rng.choice(['random', 'random', 'preempt']), max_steps=20000,
                preempt_points={rng.randrange(0, 60) for _ in range(3)})
    rec = Recorder(sch)

    def client(ci):
        def run():
            b = backends[ci]
            if what.startswith('add'):
                rec.call(ci, 'add', (key,), lambda: b.add(key, 'from-%d' % ci, timeout=None, **vkw))
            elif what == 'incr':
                rec.call(ci, 'incr', (key,), lambda: b.incr(key, ci + 1, **vkw))
            elif what == 'has_key':
                # client 0 asks whether the key is there (it is, all the time) while the others write other keys: being
                # busy is no reason to say no
                if ci == 0:
                    for _ in range(3):
                        rec.call(ci, 'has_key', (key,), lambda: b.has_key(key, **vkw))
                        rec.call(ci, 'contains', (key,), lambda: (key in b) if ver is None else b.has_key(key, version=ver))
                else:
                    for j in range(3):
                        rec.call(ci, 'set', ('other',), lambda: b.set('other-%d-%d' % (ci, j), 'M' * 100, timeout=None))
            elif what == 'pop':
                rec.call(ci, 'pop', (key,), lambda: b.pop(key, 'MISS', **vkw))
            else:
                rec.call(ci, 'delete', (key,), lambda: b.delete(key, **vkw))
        return run
    try:
        done = sch.run([client(i) for i in range(n)])
        probe.set_controller(None)
        wit = {'label': label, 'params': params, 'contended': what, 'threads': n, 'one_backend_object': shared,
               'trace_hash': sch.trace_hash()}
        errs = sch.errors()
        if errs or not done:
            res.violation('contended %s did not complete: %s' % (what, errs[0][1][1][-300:] if errs else 'schedule did not finish'), wit)
            return
        res.count('contended_call_schedules')
        res.count('evaluations')
        results = [(o['kind'], o['result']) for o in rec.ops]
        final = base.get(key, 'MISS', **vkw)
        if what.startswith('add'):
            winners = [r for r in results if r == ('ok', True)]
            if len(winners) != 1 or any(r not in (('ok', True), ('ok', False)) for r in results) or not str(final).startswith('from-'):
                res.violation('%d threads added one absent key at once: results %r, the key now holds %r' % (n, results, final), wit)
        elif what == 'incr':
            want = 10 + sum(range(1, n + 1))
            if final != want or sorted(r[1] for r in results)[-1] != want:
                res.violation('%d threads incremented one key at once: results %r, the key now holds %r, expected %r' % (
                    n, results, final, want), wit)
        elif what == 'has_key':
            answers = [(o['kind'], o['result']) for o in rec.ops if o['op'] in ('has_key', 'contains')]
            if any(a != ('ok', True) for a in answers):
                res.violation('has_key / `in` for a key that is present all the time, asked while %d other thread(s) were '
                              'writing other keys (options %r): %r' % (n - 1, options, answers), wit)
        elif what == 'pop':
            if sorted(map(repr, results)) != sorted(map(repr, [('ok', 'L' * 100)] + [('ok', 'MISS')] * (n - 1))) or final != 'MISS':
                res.violation('%d threads popped one key at once: results %r' % (n, [(k, str(v)[:8]) for k, v in results]), wit)
        else:
            if sorted(r[1] for r in results) != [False] * (n - 1) + [True] or final != 'MISS':
                res.violation('%d threads deleted one key at once: results %r' % (n, results), wit)
    finally:
        probe.set_controller(None)
        for b in set(backends) | {base}:
            try:
                b.close()
            except Exception:      # noqa: BLE001
                pass
        sc.drop(d)


def run_shard(tier, seed, shard, nshards, res):
    dc = common.use_repo()
    probe.install()
    combos = [(t, p, v, s) for t in (300, None, 2, 0) for p in ('', 'p') for v in (1, 2) for s in (1, 3, 8)]
    with common.Scratch() as sc:
        for i in range(40 if tier == "quick" else 400):
            rng = common.rng_for(seed, 'c19', shard, i)
            t, p, v, s = combos[(shard * 8 + i + seed) % len(combos)]
            params = {'TIMEOUT': t, 'KEY_PREFIX': p, 'VERSION': v, 'SHARDS': s}
            history(dc, sc, res, rng, params, 'c19 seed=%d shard=%d i=%d' % (seed, shard, i))
            if res.new_violations() > 8:
                return
        for i in range(25 if tier == "quick" else 300):
            rng = common.rng_for(seed, 'c19c', shard, i)
            t, p, v, s = combos[(shard * 8 + i + seed) % len(combos)]
            contended_calls(dc, sc, res, rng, {'TIMEOUT': t, 'KEY_PREFIX': p, 'VERSION': v, 'SHARDS': s},
                            'c19 contended seed=%d shard=%d i=%d' % (seed, shard, i))
            if res.new_violations() > 8:
                return
