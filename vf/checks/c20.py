"""C20 - Averager counts every add once; throttle never exceeds its rate."""

import json
import math
import os
import pickle
import subprocess
import threading

from .. import common, gen, lin, probe
from ..sched import LateHandles, Recorder, Sched, store_gates

PROP = 'C20'
LEVEL = 'exploration'
RULE = ('Averager: 2-3 clients doing add(v)/get()/pop() (v small integers as floats, sums exact) under the schedule '
        'fuzzer, linearized against the (total, count) model, plus free-running threads/processes whose final raw '
        'entry must equal (sum, number of adds). throttle: the decorator runs on the virtual clock (time_func / '
        'sleep_func) with 1-3 callers and burst / uniform / random / idle-then-burst arrival patterns for count in '
        '{1,2,5} x seconds in {0.5,1,3}; for every pair of call starts i<=j the number of starts in [t_i,t_j] must be '
        '<= count + rate*(t_j-t_i), and every call must start within a bounded virtual delay and number of loop '
        'iterations. evaluations = schedules judged; distinct_nontrivial = distinct schedule traces with a '
        'preemption inside an operation + distinct (count, seconds, pattern, callers) throttle cells')
DISTINCT = ('averager_schedules', 'throttle_cells', 'throttle_schedules')
REQUIRED = ('recipe_arguments_by_position', 'throttle_calls_whose_function_failed', 'averager_schedules_checked', 'averager_pops', 'averager_free_runs', 'throttle_runs', 'throttle_calls_started',
            'throttle_sleeps', 'throttle_concurrent_runs', 'throttle_runs_named_falsy', 'throttle_runs_named_derived', 'throttle_runs_on_jsondisk',
            'throttle_runs_coarse_clock')
ASSUMPTIONS = ('throttle is driven through its own time_func/sleep_func parameters; virtual sleep blocks the caller '
               'until virtual time reaches the wake-up', 'liveness is restated as bounded progress (virtual seconds and '
               'loop iterations)')


def plan(tier):
    return {'nshards': 16 if tier == 'quick' else 48, 'timeout': 900 if tier == 'quick' else 3600}


def avg_step(state, o):
    total, count = state
    op, a = o['op'], o['args']
    if op == 'add':
        return [((total + a[0], count + 1), 'ok', None)]
    if op == 'get':
        return [((total, count), 'ok', None if count == 0 else total / count)]
    if op == 'pop':
        return [((0.0, 0), 'ok', None if count == 0 else total / count)]
    raise ValueError(op)


def averager_schedule(dc, sc, res, rng, label):
    d = sc.new()
    clock = probe.set_clock(probe.VClock())
    topo = rng.choice(['shared', 'separate', 'fanout'])
    n = rng.randrange(2, 4)
    json_disk = rng.random() < 0.25
    dkw = {'disk': dc.JSONDisk} if json_disk else {}
    res.count('averager_schedules_on_jsondisk' if json_disk else 'averager_schedules_on_disk')
    if topo == 'fanout':
        base = dc.FanoutCache(d, shards=rng.choice([2, 3, 5]), timeout=0, **dkw)
        caches = [base if rng.random() < 0.6 else pickle.loads(pickle.dumps(base)) for _ in range(n)]
    else:
        base = dc.Cache(d, timeout=0, **dkw)
        caches = LateHandles(rng, n, lambda: dc.Cache(d, timeout=0, **dkw), shared=base if topo == 'shared' else None)
    sch = Sched(rng, clock, strategy=rng.choice(['random', 'preempt', 'random', 'ops']),
                preempt_points={rng.randrange(0, 150) for _ in range(3)})
    if store_gates(sch, rng, dc):
        res.count('schedules_with_attribute_store_gates')
    rec = Recorder(sch)
    ave_key = rng.choice(['latency', 'latency', '', 0] + ([] if json_disk else [('avg', 1)]))   # the tally lives under any cache key

    def client(ci):
        def run():
            ave = dc.Averager(caches[ci], ave_key)
            for i in range(rng.randrange(2, 6)):
                op = rng.choice(['add', 'add', 'add', 'get', 'pop'])
                if op == 'add':
                    v = float(rng.randrange(0, 9))
                    rec.call(ci, 'add', (v,), lambda: ave.add(v))
                else:
                    rec.call(ci, op, (), getattr(ave, op))
        return run
    try:
        ok = sch.run([client(i) for i in range(n)])
        probe.set_controller(None)
        extra = {'label': label, 'topology': topo, 'trace_hash': sch.trace_hash()}
        errs = sch.errors()
        if errs:
            res.violation('client died: %s' % errs[0][1][1][-400:], extra)
            return
        if not ok:
            res.count('schedules_hit_step_cap')
            return
        ops = list(rec.ops)
        for o in ops:
            if o['kind'] == 'raise':
                res.violation('Averager.%s raised %s (%s)' % (o['op'], o['result'], o.get('exc')), extra)
                return
        fresh = dc.Cache(d, **dkw) if topo != 'fanout' else base
        t = sch.tick + 5
        ops.append({'client': 99, 'op': 'get', 'args': (), 'kw': {}, 'call': t, 'ret': t + 1, 'kind': 'ok',
                    'result': dc.Averager(fresh, ave_key).get()})
        if fresh is not base:
            fresh.close()
        res.count('averager_pops', sum(1 for o in ops if o['op'] == 'pop'))
        try:
            good, info = lin.check(ops, (0.0, 0), avg_step, timeout=10)
        except lin.Timeout:
            res.count('linearizability_search_timeouts')
            good = True
        res.count('averager_schedules_checked')
        res.count('evaluations')
        if sch.preemptions_in_op:
            res.seen('averager_schedules', sch.trace_hash())
        if not good:
            res.violation('Averager history is not linearizable against (total, count): an add was lost or counted twice',
                          dict(extra, checker=info, history=[{k: o[k] for k in ('client', 'op', 'args', 'call', 'ret',
                                                                                'result')} for o in ops]))
    finally:
        probe.set_controller(None)
        for c in list({id(x): x for x in (caches.all() if hasattr(caches, 'all') else caches) + [base]}.values()):
            try:
                c.close()
            except Exception:      # noqa: BLE001
                pass
        sc.drop(d)


CHILD = r'''
import json, random, sys, time
sys.path.insert(0, %(verif)r)
from vf import common, probe
dc = common.use_repo()
probe.install(audit=False)
d, ci, seed, n = sys.argv[1], int(sys.argv[2]), int(sys.argv[3]), int(sys.argv[4])
rng = random.Random(seed * 100 + ci)
class Delay:
    def gate(self, label, info=None):
        if rng.random() < 0.15:
            time.sleep(rng.random() * 0.001)
probe.set_controller(Delay())
ave = dc.Averager(dc.Cache(d, timeout=60), 'latency')
tot = 0.0
for i in range(n):
    v = float(rng.randrange(0, 9))
    ave.add(v)
    tot += v
print(json.dumps([tot, n]))
'''


def averager_free(dc, sc, res, rng, seed, topo, label):
    d = sc.new()
    dc.Cache(d).close()
    nc, n = rng.randrange(2, 5), rng.randrange(40, 100)
    sums = []
    if topo == 'processes':
        code = CHILD % {'verif': common.VERIF}
        env = dict(os.environ, VF_REPO=common.REPO, PYTHONDONTWRITEBYTECODE='1')
        procs = [subprocess.Popen([common.PY, '-c', code, d, str(ci), str(seed), str(n)], stdout=subprocess.PIPE,
                                  stderr=subprocess.PIPE, env=env) for ci in range(nc)]
        for p in procs:
            try:
                so, se = p.communicate(timeout=300)
            except subprocess.TimeoutExpired:
                p.kill()
                res.inconclusive.append('averager process hit the watchdog')
                return
            if p.returncode:
                res.violation('averager client process died: %s' % se.decode()[-400:], {'label': label})
                return
            sums.append(json.loads(so))
    else:
        import random as _r
        out = [None] * nc
        shared = dc.Cache(d, timeout=60)

        def worker(ci):
            r = _r.Random(seed * 100 + ci)
            ave = dc.Averager(shared, 'latency')
            tot = 0.0
            for i in range(n):
                v = float(r.randrange(0, 9))
                ave.add(v)
                tot += v
            out[ci] = [tot, n]
        ths = [threading.Thread(target=worker, args=(i,)) for i in range(nc)]
        for th in ths:
            th.start()
        for th in ths:
            th.join(300)
        shared.close()
        if any(o is None for o in out):
            res.inconclusive.append('averager thread did not finish')
            return
        sums = out
    fresh = dc.Cache(d)
    raw = fresh.get('latency')
    fresh.close()
    sc.drop(d)
    res.count('averager_free_runs')
    res.count('evaluations')
    exp = (sum(s[0] for s in sums), sum(s[1] for s in sums))
    if tuple(raw) != exp:
        res.violation('free-running %s adders: stored (total, count) = %r, expected %r' % (topo, raw, exp), {'label': label})


# -------------------------------------------------------------------- throttle
class ThrottledBodyFailed(Exception):
    pass


def throttle_run(dc, sc, res, rng, label):
    d = sc.new()
    clock = probe.set_clock(probe.VClock())
    count = gen.pick(rng, [1, 2, 5])
    seconds = gen.pick(rng, [0.5, 1, 3])
    rate = count / float(seconds)
    ncallers = rng.randrange(1, 4)
    pattern = gen.pick(rng, ['burst', 'uniform', 'random', 'idle-then-burst'])
    # the bucket is an ordinary cache value: with JSONDisk it comes back as a list, not as the tuple that was stored
    json_disk = rng.random() < 0.3
    dkw = {'disk': dc.JSONDisk} if json_disk else {}
    res.count('throttle_runs_on_jsondisk' if json_disk else 'throttle_runs_on_disk')
    cache = dc.Cache(d, timeout=0, **dkw)
    caches = [cache if rng.random() < 0.5 else dc.Cache(d, timeout=0, **dkw) for _ in range(ncallers)]
    sch = Sched(rng, clock, strategy=rng.choice(['random', 'preempt', 'random', 'ops']), max_steps=40000,
                preempt_points={rng.randrange(0, 200) for _ in range(3)})
    if store_gates(sch, rng, dc):
        res.count('schedules_with_attribute_store_gates')
    starts = []          # virtual start times
    arrivals = []
    loops = {}
    sleeps = [0]
    quantum_box = [0]

    def vsleep(x):
        sleeps[0] += 1
        me = sch._me()
        if me is not None:
            loops[me.cid] = loops.get(me.cid, 0) + 1
        # -> scheduler's on_sleep: blocks until virtual time reaches the wake-up.  Under a coarse clock the decorator may
        # ask for a vanishing delay (rounding) until the clock moves; a real sleep takes some minimum time, here an
        # eighth of the clock's quantum, so that the busy-wait does not eat the step budget
        clock.sleep(max(x, quantum_box[0] / 8.0))

    last = {}

    # the throttle's clock may be coarse (whole or quarter seconds, a per-request timestamp): then several calls see
    # the same instant and the refill lands exactly on whole tokens
    quantum = gen.pick(rng, [0, 0, 0.25, 0.5, 1.0])
    res.count('throttle_runs_coarse_clock' if quantum else 'throttle_runs_fine_clock')
    quantum_box[0] = quantum

    def tfunc():
        # the instant the decorator itself used for its decision: a caller preempted between the
        # decision and the function body must not be charged for the virtual time that passed meanwhile
        v = clock.time()
        if quantum:
            v = math.floor(v / quantum) * quantum
        me = sch._me()
        last[me.cid if me is not None else -1] = v
        return v

    # a throttled function may fail: the call was started all the same and counts against the rate
    failing = gen.pick(rng, [0.0, 0.0, 0.3, 0.6, 1.0])
    fail_with = gen.pick(rng, [ValueError, KeyboardInterrupt, ThrottledBodyFailed])
    res.count('throttle_runs_with_failing_function' if failing else 'throttle_runs_function_never_fails')
    failures = [0]

    def make_body(ci):
        def body():
            me = sch._me()
            starts.append(last.get(me.cid if me is not None else -1, clock.now_peek()))
            if rng.random() < failing:
                failures[0] += 1
                raise fail_with('the throttled function failed')
        return body

    # the decorator itself stores the initial tally.  One bucket for all callers: either every caller throttles its own
    # function (different qualified names) under one explicit name - any cache key is a legal name, falsy ones too - or
    # all callers share one function and the name is derived from it
    bucket = gen.pick(rng, ['work', 'work', '', 0, 0.0, False, None, None] if json_disk else
                      ['work', 'work', '', 0, b'', (), 0.0, False, None, None])
    shared_body = make_body(-1)
    wrapped = []
    for ci in range(ncallers):
        if bucket is None:
            body = shared_body
        else:
            body = make_body(ci)
            body.__qualname__ = 'caller_%d.body' % ci
            body.__name__ = 'body_%d' % ci
        # throttle(cache, count, seconds, name, expire, tag, time_func, sleep_func): by keyword or by position
        how = rng.randrange(3)
        res.count('recipe_arguments_by_position', 1 if how else 0)
        wrapped.append([lambda: dc.throttle(caches[ci], count, seconds, name=bucket, time_func=tfunc, sleep_func=vsleep),
                        lambda: dc.throttle(caches[ci], count, seconds, bucket, time_func=tfunc, sleep_func=vsleep),
                        lambda: dc.throttle(caches[ci], count, seconds, bucket, None, None, tfunc, vsleep)][how]()(body))
    res.count('throttle_runs_named_' + ('derived' if bucket is None else 'falsy' if not bucket else 'text'))
    t_start = clock.now_peek()
    ncalls = rng.randrange(3, 9)

    def caller(ci):
        def run():
            if pattern == 'idle-then-burst':
                clock.sleep(seconds * 2)
            for i in range(ncalls):
                if pattern == 'uniform':
                    clock.sleep(0.5 / rate)
                elif pattern == 'random':
                    clock.sleep(rng.random() * 2 / rate)
                arrivals.append(clock.now_peek())
                loops[ci] = 0
                try:
                    wrapped[ci]()
                except fail_with:
                    pass
                if loops[ci] > 1000:
                    raise AssertionError('more than 1000 throttle loop iterations for one call')
        return run
    try:
        ok = sch.run([caller(i) for i in range(ncallers)])
        probe.set_controller(None)
        extra = {'label': label, 'count': count, 'seconds': seconds, 'callers': ncallers, 'pattern': pattern,
                 'trace_hash': sch.trace_hash()}
        errs = sch.errors()
        if errs:
            res.violation('throttled caller died: %s' % errs[0][1][1][-400:], extra)
            return
        total = ncalls * ncallers
        if not ok or len(starts) != total:
            res.violation('bounded progress: only %d of %d throttled calls were let through within %d scheduler steps' % (
                len(starts), total, sch.steps), extra)
            return
        res.count('throttle_runs')
        res.count('evaluations')
        res.count('throttle_calls_started', len(starts))
        res.count('throttle_calls_whose_function_failed', failures[0])
        res.count('throttle_sleeps', sleeps[0])
        if ncallers > 1:
            res.count('throttle_concurrent_runs')
        res.seen('throttle_cells', (count, seconds, pattern, ncallers))
        res.seen('throttle_schedules', sch.trace_hash())
        ts = sorted(starts)
        eps = 1e-3
        for i in range(len(ts)):
            for j in range(i, len(ts)):
                allowed = count + rate * (ts[j] - ts[i]) + eps
                if (j - i + 1) > allowed:
                    res.violation('throttle exceeded: %d starts within %.4f virtual seconds, allowed %d + %.3f/s' % (
                        j - i + 1, ts[j] - ts[i], count, rate), dict(extra, starts=[round(x - t_start, 4) for x in ts]))
                    return
        # bounded progress in virtual time: the whole batch finishes within the ideal drain time plus slack
        span = max(ts) - min(arrivals)
        bound = (total + 1) / rate + (seconds * 2 if pattern == 'idle-then-burst' else 0) + 2 * total / rate + 5
        if span > bound:
            res.violation('bounded progress: %d calls took %.2f virtual seconds (> %.2f)' % (total, span, bound), extra)
        if len(res.samples) < 2:
            res.sample(dict(extra, starts=[round(x - t_start, 4) for x in ts]))
    finally:
        probe.set_controller(None)
        for c in list({id(x): x for x in caches + [cache]}.values()):
            try:
                c.close()
            except Exception:      # noqa: BLE001
                pass
        sc.drop(d)


def run_shard(tier, seed, shard, nshards, res):
    dc = common.use_repo()
    probe.install()
    with common.Scratch() as sc:
        for i in range(50 if tier == 'quick' else 1000):
            rng = common.rng_for(seed, 'c20a', shard, i)
            averager_schedule(dc, sc, res, rng, 'c20 averager seed=%d shard=%d i=%d' % (seed, shard, i))
            if res.new_violations() > 6:
                return
        for i in range(25 if tier == 'quick' else 500):
            rng = common.rng_for(seed, 'c20t', shard, i)
            throttle_run(dc, sc, res, rng, 'c20 throttle seed=%d shard=%d i=%d' % (seed, shard, i))
            if res.new_violations() > 6:
                return
        probe.reset()
        for i in range(1 if tier == 'quick' else 6):
            rng = common.rng_for(seed, 'c20f', shard, i)
            topo = 'processes' if (shard + i) % 2 else 'threads'
            averager_free(dc, sc, res, rng, seed * 1000 + shard * 10 + i, topo,
                          'c20 free adders seed=%d shard=%d i=%d %s' % (seed, shard, i, topo))
