"""Seeded generators for keys, values, tags, ttls and call histories."""

from .probe import VClock

TICK = VClock.TICK
HALF = TICK / 2


def ttl_exact(x):
    """Positive ttls are moved to an odd multiple of half a tick, so that
    `clock read + ttl` can never equal a later clock read (the degenerate
    instant now == expire_time on which lookups legitimately disagree)."""
    if x is None:
        return None
    if x > 0:
        return round(x / TICK) * TICK + HALF
    return round(x / TICK) * TICK


TTLS = [None, None, None, ttl_exact(TICK), 0, -1.5, -1e6, ttl_exact(0.5), ttl_exact(5.5),
        ttl_exact(1e3), ttl_exact(1e12)]
TAGS = [None, None, 't', 'u', 0, 7, 2.5, b't', '0', b'0', 0.0, '', b'']
ADVANCES = [0, 0, 0, TICK * 3, 0.25, 1.0, 6.0, 2000.0]


class Blob:
    """A picklable user class (equality by content)."""

    def __init__(self, payload):
        self.payload = payload

    def __eq__(self, other):
        return type(other) is Blob and other.payload == self.payload

    def __hash__(self):
        return hash(('Blob', repr(self.payload)))

    def __repr__(self):
        return 'Blob(%r)' % (self.payload,)


def simple_keys():
    return ['a', 'b', 'k', '', 'a\x00b', 'é', b'a', b'', 0, -1, -7, 10**15 + 3, 2**63 - 1, -2**63, 2**63, 2**70,
            -0.5, -2.5, 1e300, None, True, False, ('a', 1), (1, 2.0, None), ('a', ('b', b'c')), 1e16]


def alias_keys():
    return [(-3, -3.0), (0, 0.0), (2**53, float(2**53)), (10**15 + 3, float(10**15 + 3))]


def value_pool(rng, T):
    """Values on both sides of the file threshold T."""
    n_big = T + rng.randrange(0, 40)
    n_small = max(0, T - 1 - rng.randrange(0, 3)) if T > 0 else 0
    vals = [0, 1, -5, 2**62, 2**63, -2**63 - 1, 1.5, -0.0, float('inf'), None, True, False,
            '', 'x', 'y' * n_small, 'z' * n_big, 'w' * T if T else 'w',
            '\u00e9\u20ac' * (n_big // 2 + 1), 'a\U0001F600' * (n_big // 2 + 1),     # file-backed text whose byte length differs

            b'', b'b', b'c' * n_small, b'd' * n_big,
            ('t', 1, None), [1, [2, [3]]], {'a': 1, 'b': (2, 3)}, frozenset([1, 2]),
            Blob('p' * 3), Blob('q' * n_big), ['L' * n_big, 1]]
    return vals


def pick(rng, seq):
    return seq[rng.randrange(len(seq))]
