"""Cooperative schedule fuzzer.

Client threads are serialised: exactly one runs at a time, and control returns
to the scheduler at every probe gate (before/after each SQL statement and
value-file operation) and at every virtual sleep.  SQLite connections use
timeout=0, so a contended BEGIN IMMEDIATE fails at once; the failure marks the
client lock-blocked until some client passes COMMIT/ROLLBACK.  The sequence of
(client, gate) decisions is the replayable trace."""

import hashlib
import threading
import traceback

from . import probe


class StepCap(Exception):
    pass


def code_objects(*owners):
    """All code objects of the functions, properties and context managers defined by the given classes / modules /
    functions (nested functions and generator expressions included)."""
    import types
    out, seen = [], set()

    def add(code):
        if code in seen:
            return
        seen.add(code)
        out.append(code)
        for const in code.co_consts:
            if isinstance(const, types.CodeType):
                add(const)

    def visit(obj):
        if isinstance(obj, property):
            for f in (obj.fget, obj.fset, obj.fdel):
                if f is not None:
                    visit(f)
        elif isinstance(obj, (staticmethod, classmethod)):
            visit(obj.__func__)
        elif isinstance(obj, types.FunctionType):
            add(obj.__code__)
            inner = getattr(obj, '__wrapped__', None)
            if inner is not None:
                visit(inner)
    for owner in owners:
        if isinstance(owner, type) or isinstance(owner, types.ModuleType):
            for obj in vars(owner).values():
                if isinstance(owner, types.ModuleType) and getattr(obj, '__module__', None) != owner.__name__:
                    continue
                visit(obj)
        else:
            visit(owner)
    return out


_STORE_LINES = {}


def store_lines(codes, entries=False):
    """{(code, line)} of the statements that store or delete an attribute (STORE_ATTR / DELETE_ATTR / a call of
    setattr or delattr), plus the statement that follows each of them in the same function; with `entries` also the
    first statement of every function."""
    import dis
    memo = (tuple(codes), entries)
    if memo in _STORE_LINES:
        return _STORE_LINES[memo]
    out = _STORE_LINES.setdefault(memo, set())
    for code in codes:
        lines = sorted({ln for _, _, ln in code.co_lines() if ln is not None})
        hits = set()
        cur = None
        for ins in dis.get_instructions(code):
            if ins.starts_line is not None:
                cur = ins.starts_line
            if ins.opname in ('STORE_ATTR', 'DELETE_ATTR') or (
                    ins.opname in ('LOAD_GLOBAL', 'LOAD_NAME') and ins.argval in ('setattr', 'delattr')):
                if cur is not None:
                    hits.add(cur)
        for ln in hits:
            out.add((code, ln))
            later = [x for x in lines if x > ln]
            if later:
                out.add((code, later[0]))
        # ... and the first statement of every function: a thread may also be held up between the steps of a call (after
        # its transaction, before it reads or removes a value file), where there is no store
        body = [x for x in lines if x > code.co_firstlineno] if entries else []
        if body and code.co_name not in ('<genexpr>', '<listcomp>', '<lambda>', '<dictcomp>', '<setcomp>'):
            out.add((code, body[0]))
    return out


_LIBRARY_CODES = {}


def store_gates(sch, rng, dc, p=0.3):
    """With probability p make the attribute stores of the library's classes and recipes scheduling points of `sch` (see
    LineGates, only_stores): threads that share one library object are then also interleaved around the state the
    object keeps in memory.  Returns True when switched on."""
    if rng.random() >= p:
        return False
    codes = _LIBRARY_CODES.get(id(dc))
    if codes is None:
        import importlib
        owners = [dc.Cache, dc.FanoutCache, dc.Deque, dc.Index, dc.Disk, importlib.import_module(dc.__name__ + '.recipes')]
        codes = _LIBRARY_CODES[id(dc)] = code_objects(*owners)
    sch.line_codes = codes
    sch.only_stores = True
    sch.max_steps *= 4
    return True


class LineGates:
    """Statement-level scheduling points (sys.monitoring LINE events, Python >= 3.12): while active, every statement of
    the chosen library functions that a client thread of the scheduler executes is a gate, so that two threads sharing
    one library object can be interleaved between any two statements - not only around SQL statements and file
    operations.  Threads that are not clients of the scheduler are not affected."""
    TOOL = 3

    def __init__(self, sched, codes, only_stores=False):
        self.sched = sched
        self.codes = list(codes)
        self.events = 0
        # only_stores: gates only at the statements that store (or delete) an attribute - where a thread publishes
        # state on an object other threads may share - and at the statement executed right after each of them
        self.only = store_lines(self.codes, entries=only_stores == 'with entries') if only_stores else None

    def _line(self, code, line):
        if self.only is not None and (code, line) not in self.only:
            import sys
            return sys.monitoring.DISABLE
        if self.sched._me() is None or self.sched.aborted:
            return None
        self.events += 1
        self.sched.gate('line')
        return None

    def __enter__(self):
        import sys
        mon = sys.monitoring
        mon.use_tool_id(self.TOOL, 'vf-line-gates')
        mon.restart_events()
        mon.register_callback(self.TOOL, mon.events.LINE, self._line)
        for code in self.codes:
            mon.set_local_events(self.TOOL, code, mon.events.LINE)
        return self

    def __exit__(self, *exc):
        import sys
        mon = sys.monitoring
        for code in self.codes:
            mon.set_local_events(self.TOOL, code, 0)
        mon.register_callback(self.TOOL, mon.events.LINE, None)
        mon.free_tool_id(self.TOOL)
        return False


class Client:
    def __init__(self, cid, fn):
        self.cid = cid
        self.fn = fn
        self.go = threading.Semaphore(0)
        self.status = 'ready'      # ready | blocked | sleeping | done
        self.wake = None
        self.label = 'start'
        self.error = None
        self.thread = None
        self.in_op = False
        self.gates = 0
        self.ops_done = 0          # operations completed (Recorder)
        self.chased_gate = -1


class Sched:
    def __init__(self, rng, clock, strategy='random', max_steps=6000, preempt_points=None, victims=(),
                 chase_label='pre:fopen', line_codes=None, only_stores=False):
        self.rng = rng
        self.clock = clock
        self.strategy = strategy
        self.max_steps = max_steps
        self.clients = []
        self.yielded = threading.Semaphore(0)
        self.local = threading.local()
        self.trace = []
        self.steps = 0
        self.preemptions = 0
        self.preemptions_in_op = 0
        self.current = None
        self.preempt_points = preempt_points or set()
        self.aborted = False
        self.lock_waits = 0
        self.tick = 0              # logical time for histories
        # strategy 'chase' (an adversary): whenever a victim client is about to pass `chase_label` (by default: open
        # a value file for reading), some other client first completes one whole operation
        self.victims = set(victims)
        self.chase_label = chase_label
        self._chase = None
        self.chases = 0
        self.line_codes = line_codes      # code objects whose statements are scheduling points (LineGates)
        self.line_events = 0
        self.only_stores = only_stores
        # strategy 'plan' (bounded-exhaustive exploration): the client that runs keeps running; when the n-th statement
        # gate of the whole run is reached and n is in `plan`, control goes to client plan[n] (if it can run).  `start`
        # is the client that runs first.  A caller enumerates plans with 0, 1, 2 ... change points.
        self.plan = {}
        self.start = 0
        self.line_count = 0
        self._switch_to = None
        self.fault_hook = None     # callable(client, gate label) -> exception to raise in that client, or None
        self.harness_errors = []
        self.faults_injected = 0

    # ------------------------------------------------------------ client side
    def _me(self):
        return getattr(self.local, 'client', None)

    def gate(self, label, info=None):
        c = self._me()
        if c is None or self.aborted:
            return
        c.gates += 1
        if label == 'err:BEGIN':
            c.status = 'blocked'
            self.lock_waits += 1
        elif label in ('post:COMMIT', 'post:ROLLBACK', 'err:COMMIT', 'err:ROLLBACK'):
            for o in self.clients:
                if o.status == 'blocked':
                    o.status = 'ready'
        c.label = label
        if label == 'line':
            self.line_count += 1
            if self.line_count in self.plan:
                self._switch_to = self.plan[self.line_count]
        self._yield(c)
        hook = self.fault_hook
        if hook is not None:
            try:
                exc = hook(c, label)      # source-free failpoint: the statement / file operation fails in this client
            except Exception:             # a bug of the harness must not pass for an outcome of the operation
                self.harness_errors.append(traceback.format_exc())
                self.aborted = True
                raise StepCap()
            if exc is not None:
                self.faults_injected += 1
                raise exc

    def on_sleep(self, seconds):
        c = self._me()
        if c is None or self.aborted:
            self.clock.advance(seconds)
            return
        c.status = 'sleeping'
        c.wake = self.clock.now_peek() + seconds
        c.label = 'sleep'
        self._yield(c)

    def _yield(self, c):
        self.yielded.release()
        c.go.acquire()
        if self.aborted:
            raise StepCap()

    def _body(self, c):
        self.local.client = c
        c.go.acquire()
        try:
            if not self.aborted:
                c.fn()
        except StepCap:
            pass
        except BaseException as exc:   # noqa: BLE001 - reported to the caller
            c.error = (exc, traceback.format_exc())
        finally:
            c.status = 'done'
            # a finished client can no longer hold the write lock
            for o in self.clients:
                if o.status == 'blocked':
                    o.status = 'ready'
            self.yielded.release()

    # --------------------------------------------------------- scheduler side
    def now(self):
        self.tick += 1
        return self.tick

    def run(self, fns):
        self.clients = [Client(i, fn) for i, fn in enumerate(fns)]
        old_ctrl = probe.PROBE.controller
        old_hook = self.clock.sleep_hook
        probe.set_controller(self)
        self.clock.sleep_hook = self.on_sleep
        lines = LineGates(self, self.line_codes, self.only_stores) if self.line_codes else None
        if lines is not None:
            lines.__enter__()
        for c in self.clients:
            c.thread = threading.Thread(target=self._body, args=(c,), daemon=True)
            c.thread.start()
        try:
            while True:
                live = [c for c in self.clients if c.status != 'done']
                if not live:
                    break
                if self.steps >= self.max_steps:
                    self.aborted = True
                    break
                nxt = self._pick(live)
                self.steps += 1
                self.trace.append((nxt.cid, nxt.label))
                self.current = nxt
                nxt.go.release()
                self.yielded.acquire()
        finally:
            if self.aborted:
                for c in self.clients:
                    if c.status != 'done':
                        c.go.release()
            for c in self.clients:
                c.thread.join(timeout=20)
            if lines is not None:
                lines.__exit__(None, None, None)
                self.line_events = lines.events
            probe.set_controller(old_ctrl)
            self.clock.sleep_hook = old_hook
        if self.harness_errors:
            raise RuntimeError('harness hook failed inside a schedule: ' + self.harness_errors[0][-600:])
        return not self.aborted

    def _runnable(self, live):
        now = self.clock.now_peek()
        out = []
        for c in live:
            if c.status == 'ready':
                out.append(c)
            elif c.status == 'sleeping' and c.wake <= now:
                c.status = 'ready'
                out.append(c)
        return out

    def _pick(self, live):
        run = self._runnable(live)
        if not run:
            sleepers = [c for c in live if c.status == 'sleeping']
            if sleepers:
                w = min(c.wake for c in sleepers)
                self.clock.advance(max(w - self.clock.now_peek(), self.clock.TICK))
                run = self._runnable(live)
            if not run:
                # only lock-blocked clients remain: let them retry (spin)
                for c in live:
                    if c.status == 'blocked':
                        c.status = 'ready'
                run = self._runnable(live) or live
        cur = self.current
        cur_ok = cur is not None and cur in run
        nxt = None
        if self.strategy == 'chase':
            if self._chase is not None:
                w, target, victim = self._chase
                if w.status != 'done' and w.ops_done < target and w in run:
                    nxt = w
                else:
                    self._chase = None
                    if victim in run:
                        nxt = victim
            if nxt is None:
                for c in run:
                    if c.cid in self.victims and c.label == self.chase_label and c.chased_gate != c.gates:
                        others = [w for w in run if w.cid not in self.victims]
                        if others:
                            w = self.rng.choice(others)
                            c.chased_gate = c.gates
                            self._chase = (w, w.ops_done + 1, c)
                            self.chases += 1
                            nxt = w
                        break
        if nxt is not None:
            pass
        elif self.strategy == 'plan':
            want, self._switch_to = self._switch_to, None
            if cur is None:
                first = [c for c in run if c.cid == self.start]
                nxt = first[0] if first else run[0]
            elif want is not None and any(c.cid == want for c in run):
                nxt = [c for c in run if c.cid == want][0]
            elif cur_ok:
                nxt = cur
            else:
                nxt = min(run, key=lambda c: c.cid)
        elif self.strategy == 'ops':
            # whole operations in random order: a client keeps running until it is about to start its next call
            # (or cannot go on); every pair of calls is then ordered in real time
            if cur_ok and cur.label != 'call':
                nxt = cur
            else:
                nxt = self.rng.choice(run)
        elif self.strategy in ('random', 'chase'):
            nxt = self.rng.choice(run)
        elif self.strategy == 'roundrobin':
            order = sorted(run, key=lambda c: c.cid)
            nxt = order[0]
            if cur is not None:
                later = [c for c in order if c.cid > cur.cid]
                nxt = later[0] if later else order[0]
        else:  # 'preempt': run the current client on, except at chosen steps
            if cur_ok and self.steps not in self.preempt_points:
                nxt = cur
            else:
                others = [c for c in run if c is not cur] or run
                nxt = self.rng.choice(others)
        if cur_ok and nxt is not cur:
            self.preemptions += 1
            if cur.in_op:
                self.preemptions_in_op += 1
        return nxt

    def trace_hash(self):
        h = hashlib.sha1()
        for cid, label in self.trace:
            h.update(('%d:%s;' % (cid, label)).encode())
        return h.hexdigest()[:16]

    def errors(self):
        return [(c.cid, c.error) for c in self.clients if c.error is not None]


class Recorder:
    """Call/return history at the client boundary, stamped by the scheduler's
    logical clock.  An operation that never returned stays open."""

    def __init__(self, sched):
        self.sched = sched
        self.ops = []
        self.lock = threading.Lock()

    def call(self, client, op, args, fn, kw=None):
        c = self.sched._me()
        if c is not None:
            # a scheduling point between two calls of one client: without it a call is already "in flight" while the
            # client waits at its first statement, and no other client's call could ever lie wholly between two
            # consecutive calls of this one (real-time precedence edges would be missing from every history)
            self.sched.gate('call')
        rec = {'client': client, 'op': op, 'args': args, 'kw': kw or {}, 'call': self.sched.now(),
               'ret': None, 'kind': None, 'result': None, 't0': self.sched.clock.now_peek(), 't1': None}
        with self.lock:
            self.ops.append(rec)
        if c is not None:
            c.in_op = True
        try:
            out = fn()
            rec['kind'] = 'ok'
            rec['result'] = out
        except StepCap:
            raise
        except Exception as exc:   # noqa: BLE001 - outcome is data
            rec['kind'] = 'raise'
            rec['result'] = type(exc).__name__
            rec['exc'] = repr(exc)[:200]
        finally:
            if c is not None:
                c.in_op = False
                c.ops_done += 1
        rec['ret'] = self.sched.now()
        rec['t1'] = self.sched.clock.now_peek()       # every clock read of the call lies in [t0, t1]
        return rec



class LateHandles:
    """handles[ci] is client ci's handle.  Unless all clients share one object, a handle is opened on first use - i.e.
    inside the schedule, while the other clients are in the middle of their calls - and now and then replaced by a freshly
    opened one (half of the time; otherwise all handles are opened beforehand, as a baseline)."""

    def __init__(self, rng, n, factory, shared=None, reopen=0.12, first=None):
        self.rng, self.factory, self.shared, self.reopen = rng, factory, shared, reopen
        self.late = shared is None and rng.random() < 0.5
        self.opened = []
        self.items = [None] * n
        # `first`: client 0 keeps using this handle (typically the one that created the directory, with its settings),
        # while the other clients open handles of their own
        self.first = first if shared is None else None
        if shared is None and not self.late:
            self.items = [self._open() for _ in range(n)]

    def _open(self):
        h = self.factory()
        self.opened.append(h)
        return h

    def __getitem__(self, ci):
        if self.shared is not None:
            return self.shared
        if ci == 0 and self.first is not None:
            return self.first
        if self.items[ci] is None or (self.late and self.rng.random() < self.reopen):
            self.items[ci] = self._open()
        return self.items[ci]

    def all(self):
        return list(self.opened) + ([self.shared] if self.shared is not None else [])

    @property
    def opened_inside(self):
        return len(self.opened) if self.late else 0
