#!/bin/sh
# Run every mutant patch against the quick tier of the check(s) that must catch it (scratch copy of /repo,
# removed afterwards).  Exit 0 iff every mutant is caught (exit 1 of the check) by at least one of its targets.
cd "$(dirname "$0")"
fail=0
: > mutants/RESULTS.txt
for patch in mutants/*.patch; do
  name="$(basename "$patch" .patch)"
  targets="$(grep "^$name " mutants/targets.txt | cut -d' ' -f2-)"
  [ -n "$targets" ] || targets="$(echo "$name" | cut -c1-3 | tr c C)"
  caught=""
  for t in $targets; do
    line="$(tools/mutant.sh "$patch" "$t" 2>&1 | tail -1)"
    case "$line" in *"exit 1"*) caught="$caught $t";; esac
  done
  if [ -n "$caught" ]; then echo "CAUGHT  $name by$caught" | tee -a mutants/RESULTS.txt
  else echo "MISSED  $name (targets: $targets)" | tee -a mutants/RESULTS.txt; fail=1; fi
done
# the changes written by independent sub-agents (seeded/<name>/patch.diff) against the check of their own property
for patch in seeded/*/patch.diff; do
  name="$(basename "$(dirname "$patch")")"
  # a seed whose lines were later changed by a repair of /repo carries a version rebased onto the current tree
  [ -f "seeded/$name/patch_rebased.diff" ] && patch="seeded/$name/patch_rebased.diff"
  t="$(echo "$name" | cut -c1-3)"
  line="$(tools/mutant.sh "$patch" "$t" 2>&1 | tail -1)"
  case "$line" in
    *"exit 1"*) echo "CAUGHT  seeded/$name by $t" | tee -a mutants/RESULTS.txt;;
    *) echo "MISSED  seeded/$name (target: $t)" | tee -a mutants/RESULTS.txt; fail=1;;
  esac
done
exit $fail
