#!/venv/bin/python
"""Regenerate /verif/golden/ from the PINNED tree (the commit /repo was handed over at), never from the working
tree: directories written in the released on-disk format plus tables of key encoding, routing and schema.
Run once; the result is committed.  Usage: /venv/bin/python tools/mkgolden.py"""
import os
import pickle
import shutil
import subprocess
import sys
import tempfile

HERE = os.path.dirname(os.path.dirname(os.path.abspath(__file__)))
PINNED = '5a4f96f'
T = 64


def key_pool():
    keys = [0, 1, -1, 7, 2**31, 2**53, 2**53 + 1, 2**63 - 1, -2**63, 2**63, -2**63 - 1, 2**70, 10**15,
            0.0, -0.0, 1.0, 1.5, -2.5, 1e300, 5e-324, float('inf'), float('-inf'), float(2**53), float(2**63),
            '', 'a', 'b', 'key', 'a\x00b', 'é', '\U0001F600', 'a-500000000000000', 'x' * 100,
            b'', b'a', b'key', b'\x00\xff', b'\x80\x05N.', b'x' * 100,
            None, True, False, (), (1,), (1, 2), (1.0, 2), ('a', None), ('a', ('b', b'c')), (2**70, 'x'),
            frozenset([1, 2]), 'None', 'True']
    for i in range(200):
        keys.append(i * 7919 - 500)
        keys.append('k%04d' % i)
    for i in range(60):
        keys.append(i * 1.25 - 30)
        keys.append(b'b%03d' % i)
        keys.append(('t', i))
    return keys


def values():
    big = T + 20
    return [('int', 5), ('negint', -2**62), ('bigint', 2**80), ('float', 2.5), ('negzero', -0.0), ('inf', float('inf')),
            ('none', None), ('true', True), ('str', 'text'), ('str_crlf_small', 'a\r\nb\r'), ('str_nul', 'a\x00b'),
            ('str_file', 's' * big), ('str_file_crlf', 'a\r\nb\rc\n' * 20), ('str_file_astral', '\U0001F600é' * 50),
            ('bytes', b'bin'), ('bytes_file', b'B' * big), ('bytes_file_crlf', b'a\r\nb' * 30),
            ('tuple', (1, 'a', None)), ('list_file', ['L' * big, 2.5]), ('dict', {'a': 1, 'b': (2, 3)}),
            ('set', frozenset([1, 2])), ('empty_str', ''), ('empty_bytes', b'')]


def main():
    tmp = tempfile.mkdtemp(prefix='vf-pinned-')
    out = os.path.join(HERE, 'golden')
    try:
        subprocess.check_call(['git', '-C', '/repo', 'worktree', 'add', '--detach', '-f', os.path.join(tmp, 'wt'), PINNED],
                              stdout=subprocess.DEVNULL, stderr=subprocess.DEVNULL)
        sys.path.insert(0, os.path.join(tmp, 'wt'))
        sys.dont_write_bytecode = True
        import diskcache as dc
        assert dc.__file__.startswith(tmp), dc.__file__
        shutil.rmtree(out, ignore_errors=True)
        os.makedirs(out)
        manifest = {'pinned_commit': PINNED, 'T': T}
        keys = key_pool()
        # tables: key encoding per protocol, routing, value storage columns
        put = {}
        for proto in range(6):
            disk = dc.Disk('/nonexistent', min_file_size=T, pickle_protocol=proto)
            put[proto] = [(k, (bytes(disk.put(k)[0]) if isinstance(disk.put(k)[0], (bytes, memoryview)) else disk.put(k)[0]),
                           disk.put(k)[1], disk.hash(k)) for k in keys]
        manifest['put'] = put
        jd = dc.JSONDisk('/nonexistent', compress_level=1)
        jkeys = [k for k in keys if isinstance(k, (str, int, float)) and not isinstance(k, bool)][:80] + [None, [1, 2], 'a']
        manifest['json_put'] = [(k, bytes(jd.put(k)[0]), jd.put(k)[1], jd.hash(k)) for k in jkeys]
        # a plain cache with every key type x value mode
        d = os.path.join(out, 'cache')
        c = dc.Cache(d, disk_min_file_size=T, statistics=1, tag_index=1, eviction_policy='least-recently-used',
                     cull_limit=5, size_limit=2**28)
        content = []
        vals = values()
        for i, k in enumerate(keys[:120]):
            name, v = vals[i % len(vals)]
            tag = ['t', None, 3, 2.5, b'g'][i % 5]
            c.set(k, v, tag=tag)
            content.append((k, v, tag))
        k1 = c.push('q-inline', prefix='q')
        k2 = c.push('Q' * (T + 5), prefix='q')
        k3 = c.push(b'intq')
        assert (k1, k2) == ('q-500000000000000', 'q-500000000000001'), (k1, k2)
        content.append((k1, 'q-inline', None))
        content.append((k2, 'Q' * (T + 5), None))
        content.append((k3, b'intq', None))
        manifest['cache_int_queue_key'] = k3
        manifest['cache'] = {'content': content, 'settings': {'disk_min_file_size': T, 'statistics': 1, 'tag_index': 1,
                                                              'eviction_policy': 'least-recently-used', 'cull_limit': 5,
                                                              'size_limit': 2**28, 'disk_pickle_protocol': 5}}
        con = c._sql('SELECT type, name, tbl_name, sql FROM sqlite_master ORDER BY name').fetchall()
        manifest['schema'] = con
        rows = c._sql('SELECT key, raw, tag, size, mode, filename IS NULL, value FROM Cache ORDER BY rowid').fetchall()
        manifest['cache_rows'] = [(bytes(r[0]) if isinstance(r[0], (bytes, memoryview)) else r[0], r[1],
                                   bytes(r[2]) if isinstance(r[2], (bytes, memoryview)) else r[2], r[3], r[4], r[5],
                                   bytes(r[6]) if isinstance(r[6], (bytes, memoryview)) else r[6]) for r in rows]
        c.close()
        # protocol 2 cache (older pickles)
        d = os.path.join(out, 'cache_p2')
        c = dc.Cache(d, disk_min_file_size=T, disk_pickle_protocol=2)
        content = []
        for i, k in enumerate(keys[30:70]):
            name, v = vals[i % len(vals)]
            c.set(k, v)
            content.append((k, v, None))
        manifest['cache_p2'] = {'content': content}
        c.close()
        # JSONDisk cache
        d = os.path.join(out, 'cache_json')
        c = dc.Cache(d, disk=dc.JSONDisk, disk_compress_level=6, disk_min_file_size=T)
        content = []
        for i, k in enumerate(['a', 'b', 1, 2.5, 'long' * 30]):
            v = [{'x': i, 'y': [1, 2.5, None, 'z' * (i * 40)]}, 'plain', 7][i % 3]
            c.set(k, v)
            content.append((k, v, None))
        manifest['cache_json'] = {'content': content}
        c.close()
        # FanoutCache
        d = os.path.join(out, 'fanout')
        f = dc.FanoutCache(d, shards=4, disk_min_file_size=T)
        content = []
        for i, k in enumerate(keys[:200]):
            name, v = vals[i % len(vals)]
            f.set(k, v)
            content.append((k, v, None))
        where = []
        for k, _, _ in content:
            holders = [s for s in range(4) if k in f._shards[s]]
            where.append((k, holders))
        manifest['fanout'] = {'content': content, 'shards': 4, 'where': where}
        dq = f.deque('sub/dq')
        dq.extend([1, 'two', 'T' * (T + 9), (4, None)])
        ix = f.index('sub/ix')
        ix.update([('z', 1), ('a', 'I' * (T + 3)), (5, None)])
        manifest['fanout_deque'] = [1, 'two', 'T' * (T + 9), (4, None)]
        manifest['fanout_index'] = [('z', 1), ('a', 'I' * (T + 3)), (5, None)]
        f.close()
        # Deque and Index
        d = os.path.join(out, 'deque')
        dc.Cache(d, disk_min_file_size=T, eviction_policy='none').close()
        dq = dc.Deque(directory=d, maxlen=10)
        seq = ['a', 2, 'D' * (T + 11), b'bytes', (1, 2), None, 'a\r\n' * 30]
        dq.extend(seq)
        dq.appendleft('left')
        manifest['deque'] = {'content': ['left'] + seq, 'maxlen': 10}
        dq.cache.close()
        d = os.path.join(out, 'index')
        dc.Cache(d, disk_min_file_size=T, eviction_policy='none').close()
        ix = dc.Index(d)
        items = [('z', 1), ('a', 'I' * (T + 3)), (5, None), ((1, 'k'), b'v'), (2.5, [1, 2]), (b'bk', 'x\r'), (2**70, -0.0)]
        ix.update(items)
        manifest['index'] = {'content': items}
        ix.cache.close()
        with open(os.path.join(out, 'manifest.pkl'), 'wb') as fh:
            pickle.dump(manifest, fh, protocol=4)
        print('golden written:', sorted(os.listdir(out)))
    finally:
        subprocess.call(['git', '-C', '/repo', 'worktree', 'remove', '--force', os.path.join(tmp, 'wt')],
                        stdout=subprocess.DEVNULL, stderr=subprocess.DEVNULL)
        shutil.rmtree(tmp, ignore_errors=True)


if __name__ == '__main__':
    main()
