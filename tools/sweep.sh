#!/bin/sh
# tools/sweep.sh <tier> <seed> [<seed>...]  - run every check at the tier for each seed (fresh processes), print one line per run.
# Evidence files are left alone (VF_NO_EVIDENCE) so that a sweep never overwrites committed evidence.
tier="$1"; shift
cd "$(dirname "$0")/.."
for seed in "$@"; do
  for id in C01 C02 C03 C04 C05 C06 C07 C08 C09 C10 C11 C12 C13 C14 C15 C16 C17 C18 C19 C20; do
    out="$(VERIF_SEED=$seed VF_NO_EVIDENCE=1 PYTHONHASHSEED=0 ./check $id --tier $tier 2>&1)"; code=$?
    echo "seed=$seed $id exit=$code $(echo "$out" | tail -1 | cut -c1-110)"
    [ "$code" = 0 ] || echo "$out" | grep -E "VIOLATION|what:|INCONCLUSIVE" | head -5 | cut -c1-400
  done
done
