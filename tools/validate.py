#!/usr/bin/env python3
"""Validate MANIFEST.json and every evidence file against the schemas in /root/.vp (run with python3-vt)."""
import json, os, sys
import jsonschema
here = os.path.dirname(os.path.dirname(os.path.abspath(__file__)))
man = json.load(open(os.path.join(here, 'MANIFEST.json')))
jsonschema.validate(man, json.load(open('/root/.vp/MANIFEST.schema.json')))
sch = json.load(open('/root/.vp/EVIDENCE.schema.json'))
bad = 0
for c in man['checks']:
    p = os.path.join(here, c['evidence_file'])
    try:
        ev = json.load(open(p))
        jsonschema.validate(ev, sch)
        assert ev['property_id'] == c['property_id'] and ev['level'] == c['level_claimed']['category'], 'id/level mismatch'
        print('%s ok  tier=%s seed=%s evaluations=%s distinct=%s violations=%s wall=%ss' % (
            c['property_id'], ev['tier'], ev['seed'], ev['coverage']['evaluations'], ev['coverage']['distinct_nontrivial'],
            ev.get('violations'), ev['wall_s']))
    except Exception as exc:
        bad += 1
        print('%s BAD %s: %s' % (c['property_id'], p, str(exc)[:200]))
props = [json.loads(l)['id'] for l in open(os.path.join(here, 'properties.jsonl'))]
claimed = {c['property_id'] for c in man['checks']} | {n['property_id'] for n in man.get('not_applicable', [])}
missing = [p for p in props if p not in claimed]
print('properties neither claimed nor listed not_applicable:', missing)
sys.exit(1 if bad or missing else 0)
