#!/bin/sh
# tools/seedcheck.sh <ID> <agent-worktree> [extra check ids...]
# Takes the uncommitted change a sub-agent left in its worktree, stores it under /verif/seeded/<name>/, and
# independently confirms in a FRESH scratch worktree: (1) the repository's tests pass with the change,
# (2) the demo fails with it, (3) the demo passes without it; then (4) runs the quick checks against it.
id="$1"; wt="$2"; shift 2
name="${SEED_NAME:-$id}"
out="/verif/seeded/$name"
mkdir -p "$out"
git -C "$wt" diff > "$out/patch.diff"
cp "$wt/demo_$id.py" "$out/demo.py" 2>/dev/null
cp "$wt/SEED_NOTES.md" "$out/notes_from_author.md" 2>/dev/null
[ -s "$out/patch.diff" ] || { echo "no diff in $wt"; exit 2; }
scratch="$(mktemp -d /tmp/seedconfirm-XXXXXX)"
git -C /repo worktree add --detach -f "$scratch/wt" HEAD >/dev/null 2>&1 || exit 2
trap 'git -C /repo worktree remove --force "$scratch/wt" >/dev/null 2>&1; rm -rf "$scratch"' EXIT
cd "$scratch/wt"
# the demos assert that diskcache is imported from their author's worktree: point that path at this scratch worktree
sed "s#$wt#$scratch/wt#g" "$out/demo.py" > "$scratch/wt/demo_run.py"
PYTHONPATH="$scratch/wt" timeout 300 /venv/bin/python "$scratch/wt/demo_run.py" > "$scratch/demo_clean.log" 2>&1; demo_clean=$?
git apply "$out/patch.diff" || { echo "patch does not apply"; exit 2; }
PYTHONPATH="$scratch/wt" timeout 300 /venv/bin/python "$scratch/wt/demo_run.py" > "$scratch/demo_seeded.log" 2>&1; demo_seeded=$?
rm -f "$scratch/wt/demo_run.py"
# -n 0: the repository's pytest.ini uses xdist; under load its Django ORM tests flake on their shared db.sqlite3
# a private TMPDIR: the tests create diskcache-* directories under it, and several confirmations may run side by side
mkdir -p "$scratch/tmp"
TMPDIR="$scratch/tmp" /venv/bin/python -m pytest -q -p no:cacheprovider --timeout=900 -n 0 tests > "$scratch/tests.log" 2>&1
tests_line="$(grep -E "passed|failed" "$scratch/tests.log" | tail -1)"
failed="$(echo "$tests_line" | grep -c failed)"
cd /verif
results=""
for c in "$id" "$@"; do
  line="$(tools/mutant.sh "$out/patch.diff" "$c" 2>&1 | tail -1)"
  results="$results$line\n"
done
echo "demo without change: exit $demo_clean; demo with change: exit $demo_seeded; tests: $tests_line"
printf "$results"
cat > "$out/confirm.txt" <<EOT
confirmed in a fresh scratch worktree of /repo HEAD $(git -C /repo log --format=%h -1):
  demo without the change: exit $demo_clean  (expected 0)
  demo with the change:    exit $demo_seeded  (expected 1)
  repository tests with the change: $tests_line
quick checks against the change:
$(printf "$results")
EOT
tail -5 "$scratch/demo_seeded.log" >> "$out/confirm.txt"
