#!/bin/sh
# tools/mutant.sh <patch> <ID> [ID...]   - run quick checks against a scratch copy of /repo with the patch applied.
# Expects exit 1 (violation). The copy lives outside /repo and /verif and is removed afterwards.
patch="$(readlink -f "$1")"; shift
here="$(cd "$(dirname "$0")/.." && pwd)"
tmp="$(mktemp -d /dev/shm/vf-mut-XXXXXX)"
trap 'rm -rf "$tmp"' EXIT
mkdir "$tmp/repo"
(cd /repo && git ls-files -z | xargs -0 cp --parents -t "$tmp/repo") || exit 3
(cd "$tmp/repo" && patch -p1 -s < "$patch") || { echo "patch failed"; exit 3; }
rc=0
for id in "$@"; do
  out="$(cd "$here" && VF_REPO="$tmp/repo" VF_NO_EVIDENCE=1 ./check "$id" --tier "${TIER:-quick}" 2>&1)"
  code=$?
  echo "$(basename "$patch") $id -> exit $code :: $(echo "$out" | grep -m1 'what:' | cut -c1-220)"
  [ "$code" = 1 ] || rc=1
done
exit $rc
