#!/usr/bin/env python3
"""Regenerate /verif/MANIFEST.json from the table below and validate it."""
import json
import os
import sys

HERE = os.path.dirname(os.path.dirname(os.path.abspath(__file__)))

CHECKS = {
    'C01': dict(
        level='exploration', ref='3/C01',
        technique='runtime monitoring: round-trip monitor with a type-exact, bit-exact equality oracle over a seeded '
                  'value generator x storage configurations x store paths x accessors; storage mode read by an '
                  'independent SQLite observer',
        text='Every generated value is stored through one of set/add/__setitem__/push/incr/stream and Deque/Index/'
             'FanoutCache paths and read back through every applicable accessor; the run is inconclusive unless every '
             'storage mode (raw, binary file, text file, pickle inline, pickle file) and rejected values were observed. '
             'Held means no altered value among those observed.',
        note='Trusted: CPython pickle/json, the equality oracle (vf/observe.py same). JSONDisk: read-flag accessors are '
             'paired with read-flag stores (JSONDisk bypasses serialisation when read is set, by design); JSON '
             'fixed-point values only.'),
    'C02': dict(
        level='exploration', ref='3/C02',
        technique='runtime monitoring: n-ary identity monitor (cache vs dict keyed by the documented identity function) '
                  'over salted key pools, plus per-lookup-flavour pair monitor; known-finding classifier by mechanism',
        text='After storing each pool the cache must equal a dictionary keyed by the documented identity (length, every '
             'lookup, membership, four iterations with key type); near-miss pairs are driven through all 11 lookup '
             'flavours. ~700k ordered pairs judged per quick run.',
        note='Trusted: the identity function (vf/observe.py ident). Known finding K1 (composite keys with different '
             'pickle bytes) is classified by mechanism and reported as KNOWN-FINDING.'),
    'C03': dict(
        level='exploration', ref='3/C03',
        technique='runtime monitoring: lock-step reference-model monitor (RefCache) over generated call histories, '
                  'independent SQLite observer + structural invariant after every call, virtual clock',
        text='Every public Cache call of ~1.9k systematic (all length<=3 over a 12-call alphabet) and ~200 random '
             'histories (300-1500 calls, 150-300 keys so paging is crossed) is compared with a reference dictionary '
             'with expiry/tags/statistics; table contents are compared after every call through an independent '
             'connection. Held means no disagreement on the calls observed; not exhaustive beyond length 3.',
        note='Trusted: CPython, SQLite, the ~400-line RefCache model, the virtual clock substitution for time.time '
             'inside diskcache. Histories in which an expiry instant falls between two clock reads of one call are '
             'avoided by moving the clock first.'),
}

CHECKS['C04'] = dict(
    level='exploration', ref='3/C04',
    technique='runtime monitoring: lock-step RefCache monitor under a virtual clock with frozen-instant batches, '
              'expiry-centred history generator, Cache and FanoutCache; schedule fuzzer for expired-row removal racing '
              'with rewrites; timed linearizability (clock window per call) of queue histories with expiring items',
    text='Histories put 1/99/100/101/250 items on one shared (clock frozen) or on spread expiry instants, move the clock '
         '(none/tiny/past one/past all) and drive every operation that reads or writes expiry; expire()/cull() results '
         'and the surviving rows are compared with the reference after every call; lazy culls are checked to remove only '
         'expired items and at most cull_limit per shard.',
    note='Trusted: virtual clock substitution; expiry instants are positive; now == expire_time never generated.')

CHECKS['C05'] = dict(
    level='exploration', ref='3/C05',
    technique='runtime monitoring: cooperative schedule fuzzer at SQL-statement/file-operation gates (timeout=0 '
              'connections) + call/return history + Wing-Gong linearizability checker against a sequential map; '
              'free-running threads/processes with injected delays (WAL and rollback journals), per-key check; handles '
              'opened and iterations left half-consumed inside the schedules; statement-level gates (sys.monitoring LINE '
              'events at attribute stores) with bounded-exhaustive change-point plans for threads sharing one Cache object',
    text='~1.6k fuzzed schedules of small programs (2-4 clients, shared and separate Cache objects, inline and '
         'file-backed stamped values, LRU/statistics variant) and ~30 free-running thread/process runs per quick run; '
         'whole histories incl. a final read-out are linearized; only lookups that missed while overlapping a write of '
         'the same key are removed first (counted). Distinct interleavings are counted by trace hash.',
    note='Interleavings inside SQLite are reached only by the free-running runs; step-capped or timed-out searches are '
         'counted and never reported as held.')
CHECKS['C06'] = dict(
    level='exploration', ref='3/C06',
    technique='runtime monitoring: abort-point enumeration of generated block bodies under the lock-step RefCache '
              'monitor with an independent observer (isolation + all-or-nothing), stdlib deque/OrderedDict monitors for '
              'Deque/Index blocks, schedule fuzzer with blocks as composite operations and snapshot readers; bounded-'
              'exhaustive statement-level change-point plans (sys.monitoring) for a block beside another thread on one object',
    text='Every raise point j of every generated body (three exception kinds, nested blocks, inner exceptions caught) '
         'is executed; after an abort table dump, Settings, value files and a full read-out must equal the pre-block '
         'snapshot, during the block an independent connection must see the pre-block state; concurrent part: composite '
         'linearizability, no half-applied snapshot, no dirty read, foreign thread waits or times out.',
    note='Reference is flat (outermost exit decides). No expired item exists when a block starts (lazy culls inside a '
         'block cannot be observed from outside).')
CHECKS['C07'] = dict(
    level='fault_enumeration', ref='3/C07',
    technique='runtime monitoring + fault injection: forked child SIGKILLs itself at EVERY probe gate of each program; '
              'also at every gate of creating/re-opening a directory, at syscalls inside SQLite (strace inject), from '
              'outside at random instants, and after a COMMIT kept waiting by a reader; a different process judges '
              'contents, check(), writability and repair',
    text='10 fixed programs (every mutating method of Cache/Deque/Index, blocks, maxlen trimming, bulk removals over '
         '>100 rows, reopen) plus seeded random programs: all G gates of each are killed (about 3k kills per quick run); '
         'contents must equal the state before or after the interrupted operation (multi-step methods: any post-commit '
         'state of a dry run), every present key yields its complete stamped value, only unknown files / empty '
         'directories remain and check(fix=True) removes them.',
    note='SIGKILL = process death, not power loss. Sequential states come from a dry run of the same program.')
CHECKS['C08'] = dict(
    level='fault_enumeration', ref='3/C08',
    technique='runtime monitoring + failpoint enumeration: one injected failure at each SQL/file gate of each '
              'operation, unencodable values, lock timeouts, random histories and fuzzed concurrent programs, each '
              'followed by the quiescent structural invariant, check(), len() and volume()',
    text='32 operations x every failpoint gate (once, and persistently for file creation) x two configurations, 21 '
         'unencodable-value cases, lock-timeout cases, ~11k history calls and ~240 concurrent programs per quick run; '
         'after each the bookkeeping must match the content and later operations must work.',
    note='Fault model excludes COMMIT/ROLLBACK and unlink/rmdir failures (no implementation can keep the invariant '
         'when the OS refuses to delete).')

CHECKS['C10'] = dict(
    level='exploration', ref='3/C10',
    technique='runtime monitoring: lock-step deque-per-prefix monitor over mixed queue/ordinary-key histories under a '
              'virtual clock; schedule fuzzer + linearizability against a deque model; exactly-once and per-producer '
              'real-time order monitors over free-running threads/processes; timed linearizability (clock window per '
              'call) for queues with expiring items; transaction blocks in the queue histories',
    text='~30k sequential calls over 7 prefixes (incl. prefixes that extend one another and look-alike ordinary keys), '
         '~1k fuzzed producer/consumer schedules linearized against the deque model, 16 free runs with unique '
         '(producer, seq) payloads checked for loss, duplication, partial values and per-producer order.',
    note='A queue key is prefix-<15 digits> (int in (0,10**15) for prefix None); all other keys are ordinary.')
CHECKS['C11'] = dict(
    level='exploration', ref='3/C11',
    technique='runtime monitoring: lock-step collections.deque(maxlen) monitor over generated histories with '
              'reopen/pickle/copy/size-limit/clock-jump events; schedule fuzzer + linearizability against the bounded '
              'deque; exactly-once monitor over free-running threads/processes',
    text='~22k calls per quick run compared by result/exception type and full contents after every call, Deques from '
         'directory, FanoutCache.deque and DjangoCache.deque, maxlen in {None,0,1,3,7}; ~640 fuzzed schedules; 16 free '
         'runs.',
    note='Declared normalisations: maxlen None reported as inf; deque-typed comparison operands; int indices.')
CHECKS['C12'] = dict(
    level='exploration', ref='3/C12',
    technique='runtime monitoring: lock-step collections.OrderedDict monitor; continuous-presence monitor and '
              'OrderedDict linearizability under the schedule fuzzer; free-running presence monitor',
    text='~20k sequential calls incl. views, equality against Index/OrderedDict/dict, alias keys, persistence events; '
         '~960 presence schedules (writers only replace, readers must never miss) with ~2k lookups overlapping a '
         'replacement; ~640 atomicity schedules; 16 free runs.',
    note='bool/NaN keys not generated. Presence is judged strictly (no tolerated miss).')

CHECKS['C09'] = dict(
    level='exploration', ref='3/C09',
    technique='runtime monitoring: eviction monitor hooked into the lock-step RefCache driver (every disappearance is '
              'judged), public volume() wrapped on the instance, independent volume bound from PRAGMA page_count and '
              'Settings.size, API-level policy keys kept by the reference',
    text='~33k calls per quick run over policy x cull_limit x size_limit on Cache and FanoutCache(3), ~3.8k evicting '
         'writes and ~120 evicting cull() calls observed; each removal set is checked for count <= cull_limit, limit '
         'reached (two independent measures), policy order against survivors, cull() postconditions, per-shard limit.',
    note='Order check is tie-tolerant; for LFU an order is accepted if right with or without counting incr as a read. '
         'Items written and evicted by the same FanoutCache call cannot be attributed to a shard and skip the order check.')
CHECKS['C15'] = dict(
    level='exploration', ref='3/C15',
    technique='runtime monitoring: independent mutual-exclusion witness (holder counter + os.mkdir/rmdir + interval '
              'sweep) under the schedule fuzzer with virtual sleep, and over free-running OS processes',
    text='~960 schedules per quick run (Lock, RLock with nesting, BoundedSemaphore 1..3, barrier; shared Cache, own '
         'Caches, FanoutCache) with ~8k witnessed critical sections, refused foreign/excess releases, bounded progress; '
         '16 multi-process runs.',
    note='No expire on locks. Step-capped schedules are counted, never held.')
CHECKS['C20'] = dict(
    level='exploration', ref='3/C20',
    technique='runtime monitoring: linearizability of Averager add/get/pop against a (total,count) model under the '
              'schedule fuzzer; throttle start-time monitor on the virtual clock (time_func/sleep_func) with '
              'window-count oracle and bounded-progress check',
    text='~800 Averager schedules + 16 free-running runs (final (sum,count) exact); ~400 throttle runs (count x seconds '
         'x arrival pattern x 1-3 callers, ~4.5k starts): every window [t_i,t_j] holds at most count + rate*(t_j-t_i) '
         'starts, all calls start within a bounded virtual delay.',
    note='Start instant = the last time_func value the decorator read for that call (the decision instant).')

CHECKS['C13'] = dict(
    level='exploration', ref='3/C13',
    technique='runtime monitoring: unsharded RefCache as lock-step oracle for FanoutCache histories over five shard '
              'counts; cross-interpreter routing monitor (different PYTHONHASHSEED), golden routing table recorded from '
              'the pinned tree, equal-key pair monitor; known-finding classifier by mechanism',
    text='~25k calls per quick run against FanoutCache(1,2,3,8,13) compared with the unsharded reference (aggregate '
         'totals, iteration as permutation, volume, per-shard limit, check() after planted damage); ~1.4k keys written '
         'under one hash seed and located under another; ~16k Disk.hash values compared with the pinned routing table; '
         '320 equal-key pair cases (K2 reported as KNOWN-FINDING).',
    note='Equal int/float alias keys are excluded from part (a) and exercised in part (b), so K2 cannot mask anything '
         'else. golden/ was written by the pinned commit (tools/mkgolden.py).')
CHECKS['C14'] = dict(
    level='fault_enumeration', ref='3/C14',
    technique='runtime monitoring + fault injection: a second SQLite connection holds BEGIN IMMEDIATE before the call, '
              'from the call\'s own pre:BEGIN gate, from the second page of a bulk removal, or until the k-th failed '
              'attempt (WAL and rollback-journal databases); holder = transact() block of a sibling thread on the same '
              'object; reader holding off the COMMIT of a rollback-journal database; differential oracle against a '
              'fault-free twin; table/file snapshot equality',
    text='The whole case table (749 cases: every public data operation of Cache, FanoutCache, DjangoCache, Deque and '
         'Index x faults x retry x connection timeout) is executed on every run (exhaustive over the table).',
    note='stats()/reset() are not data operations and are not driven. A call that returns while the holder still owns '
         'the lock is a violation.')

CHECKS['C16'] = dict(
    level='exploration', ref='3/C16',
    technique='runtime monitoring: end-to-end token oracle over the complete small-arity signature space (a collision '
              'returns another call\'s token), independent serialized-key distinctness monitor, execution counter, '
              'virtual clock for expiry; known-finding classifier by mechanism',
    text='All ~5k signatures (<= 2 positionals + every (x,None,y) pattern, kwargs subset of {a,b}, 7-value alphabet) x '
         'typed x 4 ignore sets x name given/derived x 5 decorators are called on one cache per configuration (~410k '
         'wrapper calls, ~4e8 key pairs compared per quick run; half of the configurations use a third of the space in '
         'the quick tier), plus expiry, expire=0, falsy results and derived-name separation.',
    note='"Same arguments" = same binding, values equal under == (and equal types when typed) after removing ignored '
         'arguments. K3 (positional None separator) is classified by mechanism.')
CHECKS['C17'] = dict(
    level='fault_enumeration', ref='3/C17',
    technique='runtime monitoring + damage injection: every damage kind and seeded combinations applied behind the '
              'library\'s back; ground-truth warning oracle, bit-level snapshot equality for plain check(), '
              'repair-then-clean, readability and untouched-item monitors; journal-mode and path-spelling dimensions; '
              'check() under a held lock and right after another client\'s write (adversarial schedule)',
    text='All 7 single damage kinds x {Cache, FanoutCache shard} (3 repetitions) plus ~1.3k random combinations of 2-5 '
         'damages per quick run; check() must report exactly the injected damage and change nothing; check(fix=True) '
         'must leave a clean, readable cache with undamaged items untouched.',
    note='K4 (truncated pickle/text file kept unreadable) is classified by mechanism. Debris of killed processes and '
         'failed writes is repaired inside C07 and C08.')

CHECKS['C18'] = dict(
    level='exploration', ref='3/C18',
    technique='runtime monitoring: lock-step RefCache monitor over histories with interleaved handle events (close, '
              'second handle, pickle, thread, fresh interpreter process, fork) where every call goes through a randomly '
              'chosen live handle; settings read-back monitor; fork-misuse sanitizer on the SQLite connection boundary; '
              'golden directories and encoding tables recorded from the pinned commit',
    text='~16k calls per quick run through up to a dozen live handles per history on Cache and FanoutCache, ~190 '
         'sub-histories executed by fresh interpreters and ~190 by forked children on the inherited object; Deque, Index, '
         'DjangoCache and JSONDisk handle events; 6 golden directories (every key type x value mode, protocol 2, '
         'JSONDisk, FanoutCache with sub-deque/index, Deque, Index) read completely, ~15k key-encoding/routing rows and '
         'the schema compared with the released format.',
    note='Run-time switching of statistics through one handle is not propagated to live handles by design and is not '
         'generated. Sub-histories executed elsewhere contain no expiring items (lazy culls inside them cannot be '
         'observed call by call). Value-column layout of new writes is deliberately not pinned, only readability of '
         'released directories, key encoding, routing, file layout and schema.')
CHECKS['C19'] = dict(
    level='exploration', ref='3/C19',
    technique='runtime monitoring: lock-step reference dictionary keyed by prefix:version:key implementing the Django '
              'cache-backend contract under a virtual clock',
    text='~125k calls per quick run over keys x versions x timeouts {omitted, None, 0, -1, positive} with clock jumps x '
         'TIMEOUT/KEY_PREFIX/VERSION/SHARDS parameters; every return value the contract fixes is compared, ValueError '
         'for incr/decr/incr_version on missing or expired keys, final read-back after a 63-year jump.',
    note='Django casts TIMEOUT to int itself. set()/clear() return values are not compared.')

NOT_YET = {}


def main():
    props = [json.loads(l)['id'] for l in open(os.path.join(HERE, 'properties.jsonl'))]
    checks = []
    for pid in props:
        c = CHECKS.get(pid)
        if not c:
            continue
        checks.append({
            'property_id': pid,
            'quick_cmd': './check %s --tier quick' % pid,
            'thorough_cmd': './check %s --tier thorough' % pid,
            'evidence_file': 'evidence/%s.json' % pid,
            'replay_cmd_template': './check %s --replay {path}' % pid,
            'engine': 'vf',
            'level_claimed': {'category': c['level'], 'text': c['text'], 'design_ref': 'DESIGN.md section ' + c['ref']},
            'level_note': c['note'],
            'technique': c['technique'],
        })
    na = [{'property_id': pid, 'reason': NOT_YET.get(pid, 'check not built yet (in progress); no claim is made')}
          for pid in props if pid not in CHECKS]
    man = {
        'version': 1,
        'setup_cmd': 'sh ./setup.sh',
        'hooks': {
            'guard': 'DISKCACHE_VERIF',
            'enable': 'no source hooks: the harness rebinds diskcache.core.sqlite3/open/time (and fanout/recipes time) '
                      'from outside after import; /repo is imported from its working tree via VF_REPO (default /repo)',
            'baseline_off_cmd': 'cd /repo && /venv/bin/python -m pytest -ra -q -p no:cacheprovider --timeout=900 '
                                '--continue-on-collection-errors',
            'source_commits': [],
            'add_only': True,
        },
        'engines': [{
            'name': 'vf', 'path': 'vf/', 'serves_properties': sorted(CHECKS),
            'kind_free_text': 'runtime monitoring: interposition probe (SQL statements, value-file operations, clock), '
                              'reference-model monitors, schedule fuzzer, history/linearizability checkers, '
                              'kill-point and failpoint enumeration, independent SQLite/file-system observer',
        }],
        'checks': checks,
        'not_applicable': na,
        'notes': 'All verdicts are three-valued: exit 0 held on what was observed, exit 1 VIOLATION, exit 2 inconclusive '
                 '(monitor not reached / watchdog). Known findings live in known_findings.json.',
    }
    if not na:
        del man['not_applicable']
    path = os.path.join(HERE, 'MANIFEST.json')
    with open(path, 'w') as f:
        json.dump(man, f, indent=1)
        f.write('\n')
    try:
        import jsonschema
        schema = json.load(open('/root/.vp/MANIFEST.schema.json'))
        jsonschema.validate(man, schema)
        print('MANIFEST.json valid;', len(checks), 'checks,', len(na), 'not claimed')
    except ImportError:
        print('written (jsonschema not available to validate)')


if __name__ == '__main__':
    main()
