#!/usr/bin/env python3
"""Regenerate /verif/MANIFEST.json from the table below and validate it."""
import json
import os
import sys

HERE = os.path.dirname(os.path.dirname(os.path.abspath(__file__)))

CHECKS = {
    'C01': dict(
        level='exploration', ref='3/C01',
        technique='runtime monitoring: round-trip monitor with a type-exact, bit-exact equality oracle over a seeded '
                  'value generator x storage configurations x store paths x accessors; storage mode read by an '
                  'independent SQLite observer',
        text='Every generated value is stored through one of set/add/__setitem__/push/incr/stream and Deque/Index/'
             'FanoutCache paths and read back through every applicable accessor; the run is inconclusive unless every '
             'storage mode (raw, binary file, text file, pickle inline, pickle file) and rejected values were observed. '
             'Held means no altered value among those observed.',
        note='Trusted: CPython pickle/json, the equality oracle (vf/observe.py same). JSONDisk: read-flag accessors are '
             'paired with read-flag stores (JSONDisk bypasses serialisation when read is set, by design); JSON '
             'fixed-point values only.'),
    'C02': dict(
        level='exploration', ref='3/C02',
        technique='runtime monitoring: n-ary identity monitor (cache vs dict keyed by the documented identity function) '
                  'over salted key pools, plus per-lookup-flavour pair monitor; known-finding classifier by mechanism',
        text='After storing each pool the cache must equal a dictionary keyed by the documented identity (length, every '
             'lookup, membership, four iterations with key type); near-miss pairs are driven through all 11 lookup '
             'flavours. ~700k ordered pairs judged per quick run.',
        note='Trusted: the identity function (vf/observe.py ident). Known finding K1 (composite keys with different '
             'pickle bytes) is classified by mechanism and reported as KNOWN-FINDING.'),
    'C03': dict(
        level='exploration', ref='3/C03',
        technique='runtime monitoring: lock-step reference-model monitor (RefCache) over generated call histories, '
                  'independent SQLite observer + structural invariant after every call, virtual clock',
        text='Every public Cache call of ~1.9k systematic (all length<=3 over a 12-call alphabet) and ~200 random '
             'histories (300-1500 calls, 150-300 keys so paging is crossed) is compared with a reference dictionary '
             'with expiry/tags/statistics; table contents are compared after every call through an independent '
             'connection. Held means no disagreement on the calls observed; not exhaustive beyond length 3.',
        note='Trusted: CPython, SQLite, the ~400-line RefCache model, the virtual clock substitution for time.time '
             'inside diskcache. Histories in which an expiry instant falls between two clock reads of one call are '
             'avoided by moving the clock first.'),
}

CHECKS['C04'] = dict(
    level='exploration', ref='3/C04',
    technique='runtime monitoring: lock-step RefCache monitor under a virtual clock with frozen-instant batches, '
              'expiry-centred history generator, Cache and FanoutCache',
    text='Histories put 1/99/100/101/250 items on one shared (clock frozen) or on spread expiry instants, move the clock '
         '(none/tiny/past one/past all) and drive every operation that reads or writes expiry; expire()/cull() results '
         'and the surviving rows are compared with the reference after every call; lazy culls are checked to remove only '
         'expired items and at most cull_limit per shard.',
    note='Trusted: virtual clock substitution; expiry instants are positive; now == expire_time never generated.')

NOT_YET = {}


def main():
    props = [json.loads(l)['id'] for l in open(os.path.join(HERE, 'properties.jsonl'))]
    checks = []
    for pid in props:
        c = CHECKS.get(pid)
        if not c:
            continue
        checks.append({
            'property_id': pid,
            'quick_cmd': './check %s --tier quick' % pid,
            'thorough_cmd': './check %s --tier thorough' % pid,
            'evidence_file': 'evidence/%s.json' % pid,
            'replay_cmd_template': './check %s --replay {path}' % pid,
            'engine': 'vf',
            'level_claimed': {'category': c['level'], 'text': c['text'], 'design_ref': 'DESIGN.md section ' + c['ref']},
            'level_note': c['note'],
            'technique': c['technique'],
        })
    na = [{'property_id': pid, 'reason': NOT_YET.get(pid, 'check not built yet (in progress); no claim is made')}
          for pid in props if pid not in CHECKS]
    man = {
        'version': 1,
        'setup_cmd': 'sh ./setup.sh',
        'hooks': {
            'guard': 'DISKCACHE_VERIF',
            'enable': 'no source hooks: the harness rebinds diskcache.core.sqlite3/open/time (and fanout/recipes time) '
                      'from outside after import; /repo is imported from its working tree via VF_REPO (default /repo)',
            'baseline_off_cmd': 'cd /repo && /venv/bin/python -m pytest -ra -q -p no:cacheprovider --timeout=900 '
                                '--continue-on-collection-errors',
            'source_commits': [],
            'add_only': True,
        },
        'engines': [{
            'name': 'vf', 'path': 'vf/', 'serves_properties': sorted(CHECKS),
            'kind_free_text': 'runtime monitoring: interposition probe (SQL statements, value-file operations, clock), '
                              'reference-model monitors, schedule fuzzer, history/linearizability checkers, '
                              'kill-point and failpoint enumeration, independent SQLite/file-system observer',
        }],
        'checks': checks,
        'not_applicable': na,
        'notes': 'All verdicts are three-valued: exit 0 held on what was observed, exit 1 VIOLATION, exit 2 inconclusive '
                 '(monitor not reached / watchdog). Known findings live in known_findings.json.',
    }
    if not na:
        del man['not_applicable']
    path = os.path.join(HERE, 'MANIFEST.json')
    with open(path, 'w') as f:
        json.dump(man, f, indent=1)
        f.write('\n')
    try:
        import jsonschema
        schema = json.load(open('/root/.vp/MANIFEST.schema.json'))
        jsonschema.validate(man, schema)
        print('MANIFEST.json valid;', len(checks), 'checks,', len(na), 'not claimed')
    except ImportError:
        print('written (jsonschema not available to validate)')


if __name__ == '__main__':
    main()
