#!/usr/bin/env python3
"""tools/seedtable.py <round>  - prints the DESIGN.md table of the sub-agent seeds of one round from seeded/*/meta.json."""
import glob, json, sys
rnd = int(sys.argv[1])
print('| seed | change | needs | caught by |')
print('|---|---|---|---|')
for path in sorted(glob.glob('/verif/seeded/*/meta.json')):
    m = json.load(open(path))
    if m.get('round', 1) != rnd:
        continue
    name = path.split('/')[-2]
    outs = m.get('check_output') or []
    first = outs[0].split('::', 1)[-1].strip().replace('what: ', '') if outs else ''
    ids = [o.split('->')[0].split()[-1] for o in outs if '-> exit 1' in o]
    missed = 'MISSED' in (m.get('history') or '')[:60]
    caught = ('first MISSED -> now ' if missed else '') + '/'.join(ids or [m['property']]) + ': ' + first[:110].replace('|', '\\|')
    print('| seeded/%s | %s | %s | %s |' % (name, m['change'].replace('|', '\\|'), m['needs_to_manifest'][:170].replace('|', '\\|'), caught))
