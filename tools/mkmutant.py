#!/usr/bin/env python3
"""tools/mkmutant.py NAME FILE <<< python dict literal {'old': ..., 'new': ...}  (reads a Python expression on stdin)
Creates /verif/mutants/NAME.patch from a textual replacement against /repo (working tree left untouched)."""
import ast, subprocess, sys
name, path = sys.argv[1], sys.argv[2]
spec = ast.literal_eval(sys.stdin.read())
pairs = spec if isinstance(spec, list) else [spec]
full = '/repo/' + path
s = open(full).read()
orig = s
for p in pairs:
    assert s.count(p['old']) == 1, (name, p['old'][:40], s.count(p['old']))
    s = s.replace(p['old'], p['new'])
open(full, 'w').write(s)
try:
    d = subprocess.run(['git', '-C', '/repo', 'diff', '--', path], capture_output=True, text=True).stdout
    open('/verif/mutants/%s.patch' % name, 'w').write(d)
finally:
    open(full, 'w').write(orig)
print('wrote mutants/%s.patch (%d lines)' % (name, d.count('\n')))
