#!/usr/bin/env python3
"""Print a Python source file with docstrings stripped (reading aid)."""
import ast, sys
for fn in sys.argv[1:]:
    src=open(fn).read()
    tree=ast.parse(src)
    lines=src.split('\n')
    skip=set()
    for node in ast.walk(tree):
        if isinstance(node,(ast.FunctionDef,ast.ClassDef,ast.Module)):
            b=node.body
            if b and isinstance(b[0],ast.Expr) and isinstance(b[0].value,ast.Constant) and isinstance(b[0].value.value,str):
                for i in range(b[0].lineno,b[0].end_lineno+1): skip.add(i)
    for i,l in enumerate(lines,1):
        if i not in skip and l.strip(): print(f"{i}\t{l}")
