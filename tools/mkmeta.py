#!/usr/bin/env python3
"""tools/mkmeta.py <round> <json-file>  - writes seeded/<name>/meta.json for the seeds described in the JSON file
({name: {change, needs, out: [...], history, ran: [...]}}), taking the confirmation figures from confirm.txt."""
import json, re, subprocess, sys
rnd = int(sys.argv[1])
data = json.load(open(sys.argv[2]))
told = {1: 'independent sub-agent (given only the text of the property)',
        2: 'independent sub-agent (round 2: told only which change the round-1 contributor had submitted, so as to pick a different site)',
        3: 'independent sub-agent (round 3: told only which changes the round-1 and round-2 contributors had submitted, so as to pick a different site and mechanism)',
        4: 'independent sub-agent (round 4: told only which three changes the earlier contributors had submitted, so as to pick a different site and mechanism)',
        5: 'independent sub-agent (round 5: told only which four changes the earlier contributors had submitted, so as to pick a different site and mechanism)',
        6: 'independent sub-agent (round 6: told only which five changes the earlier contributors had submitted, so as to pick a different site and mechanism)',
        7: 'independent sub-agent (round 7: told only which six changes the earlier contributors had submitted, so as to pick a different site and mechanism)',
        8: 'independent sub-agent (round 8: told only which seven changes the earlier contributors had submitted, so as to pick a different site and mechanism)',
        9: 'independent sub-agent (round 9: told only which eight changes the earlier contributors had submitted, so as to pick a different site and mechanism)',
        10: 'independent sub-agent (round 10: told only which nine changes the earlier contributors had submitted, so as to pick a different site and mechanism)',
        11: 'independent sub-agent (round 11, ten properties: told only which ten changes the earlier contributors had submitted, so as to pick a different site and mechanism)'}
for name, m in data.items():
    d = '/verif/seeded/' + name
    conf = open(d + '/confirm.txt').read()
    meta = {"property": name[:3], "round": rnd, "author": told[rnd],
            "base_commit": re.search(r'/repo HEAD (\w+)', conf).group(1), "change": m['change'], "needs_to_manifest": m['needs'],
            "what_i_ran": ["SEED_NAME=%s tools/seedcheck.sh %s /tmp/seed%d-%s" % (name, name[:3], rnd, name[:3])] + m.get('ran', []),
            "confirmed": {"demo_without_change_exit": int(re.search(r'without the change: exit (\d+)', conf).group(1)),
                          "demo_with_change_exit": int(re.search(r'with the change:\s+exit (\d+)', conf).group(1)),
                          "repository_tests_with_change": re.search(r'tests with the change: (\d+ passed)', conf).group(1)},
            "caught_by_quick_check": m.get('caught_by_own_check', True), "check_output": m['out'], "history": m['history']}
    json.dump(meta, open(d + '/meta.json', 'w'), indent=1, ensure_ascii=False)
    print(name, meta['confirmed'])
