#!/bin/sh
# Offline setup: nothing to build or install; verify what the checks need.
set -e
cd "$(dirname "$0")"
/venv/bin/python -c "import sqlite3, sys; assert sys.version_info >= (3, 8); print('python', sys.version.split()[0], 'sqlite', sqlite3.sqlite_version)"
command -v strace >/dev/null && echo "strace present" || echo "strace missing (syscall-kill tier will report inconclusive)"
chmod +x check
mkdir -p evidence replays
echo setup ok
